// Command c10 runs generated concurrent client programs over the exported methods of the
// goroutine-safe types of kafka-go.  It is built with `-race`: every data race the detector sees is
// printed on stderr ("WARNING: DATA RACE" blocks) and mapped by checks/c10.py onto the access table.
//
//	c10 <scenario> [rounds]      (seed from VERIF_SEED; VERIF_TIER=thorough widens)
//
// Each scenario builds a fresh object, picks a random multiset of the exported methods (from the seed),
// runs them from several goroutines at once, and tears the object down.  stdout: one line per round
// "round <scenario> <i> ops=<method list>" + "done <scenario> rounds=<n> calls=<n>" for coverage.
//
// The fake broker speaks the wire protocol through kafka-go's own protocol package (ReadRequest /
// WriteResponse) over net.Pipe — it is scaffolding; the code under observation is the client side.
package main

import (
	"bytes"
	"context"
	"crypto/ecdsa"
	"crypto/elliptic"
	crand "crypto/rand"
	"crypto/tls"
	"crypto/x509"
	"crypto/x509/pkix"
	"errors"
	"fmt"
	"hash/fnv"
	"io"
	"math/big"
	"math/rand"
	"net"
	"os"
	"reflect"
	"sort"
	"strconv"
	"strings"
	"sync"
	"sync/atomic"
	"time"

	kafka "github.com/segmentio/kafka-go"
	"github.com/segmentio/kafka-go/compress"
	"github.com/segmentio/kafka-go/protocol"
	"github.com/segmentio/kafka-go/protocol/apiversions"
	"github.com/segmentio/kafka-go/protocol/fetch"
	"github.com/segmentio/kafka-go/protocol/findcoordinator"
	"github.com/segmentio/kafka-go/protocol/heartbeat"
	"github.com/segmentio/kafka-go/protocol/joingroup"
	"github.com/segmentio/kafka-go/protocol/leavegroup"
	"github.com/segmentio/kafka-go/protocol/listoffsets"
	meta "github.com/segmentio/kafka-go/protocol/metadata"
	"github.com/segmentio/kafka-go/protocol/offsetcommit"
	"github.com/segmentio/kafka-go/protocol/offsetfetch"
	"github.com/segmentio/kafka-go/protocol/produce"
	"github.com/segmentio/kafka-go/protocol/syncgroup"
)

var calls int64

// functional sanity: how many operations actually succeeded (printed in the `done` line so that the
// check can tell a scenario that exercises the code from one that only collects errors)
var (
	okMu  sync.Mutex
	okCnt = map[string]int{}
)

// counting is set by runRound before the goroutines of a round are released and read by them afterwards (ordered
// by the start channel): only round 0 of a scenario is counted, so that in all other rounds the bookkeeping mutex
// adds no happens-before edges between the operations under observation.
var counting bool

func ok(name string, err error) {
	if !counting {
		return
	}
	okMu.Lock()
	if err == nil {
		okCnt[name]++
	} else {
		okCnt[name+"!err"]++
		if os.Getenv("C10_DEBUG") != "" {
			fmt.Printf("err %s: %v\n", name, err)
		}
	}
	okMu.Unlock()
}

// ---------------------------------------------------------------------------------------------
// op sets: a scenario is a list of named operations; a round picks a random multiset and runs each
// in its own goroutine, released together.

type op struct {
	name string
	f    func()
}

// exported methods an operation reaches besides the one it is named after (printed as `opmap` lines)
var (
	alsoMu  sync.Mutex
	alsoMap = map[string][]string{}
)

func also(name string, methods ...string) {
	alsoMu.Lock()
	alsoMap[name] = methods
	alsoMu.Unlock()
}

var totalRounds = 1

// watchdog per round (the slowest legitimate rounds, group rebalances, take about a second)
const watchdog = 12 * time.Second

// runRound: the operations of round `round` = the `always` ones + a window that rotates through `ops`
// (so that every operation of the list is forced within totalRounds/2 rounds of either list variant) +
// random ones up to a random size in [min,max]; each runs in its own goroutine, released together.
func runRound(rng *rand.Rand, scen string, round int, ops []op, min, max int, always ...string) {
	n := min + rng.Intn(max-min+1)
	var picked []op
	for _, a := range always {
		for _, o := range ops {
			if o.name == a {
				picked = append(picked, o)
			}
		}
	}
	half := totalRounds / 2
	if half < 1 {
		half = 1
	}
	w := (len(ops) + half - 1) / half
	for j := 0; j < w; j++ {
		picked = append(picked, ops[((round/2)*w+j)%len(ops)])
	}
	for len(picked) < n {
		picked = append(picked, ops[rng.Intn(len(ops))])
	}
	rng.Shuffle(len(picked), func(i, j int) { picked[i], picked[j] = picked[j], picked[i] })
	var names []string
	for _, o := range picked {
		names = append(names, o.name)
	}
	sort.Strings(names)
	fmt.Printf("round %s %d ops=%s\n", scen, round, strings.Join(names, ","))
	counting = round == 0 || os.Getenv("C10_COUNT_ALL") != "" // debugging aid: count the successes of every round
	start := make(chan struct{})
	var wg sync.WaitGroup
	for _, o := range picked {
		wg.Add(1)
		go func(o op) {
			defer wg.Done()
			defer func() {
				if p := recover(); p != nil {
					fmt.Printf("panic %s %s: %v\n", scen, o.name, p)
				}
			}()
			<-start
			o.f()
			atomic.AddInt64(&calls, 1)
		}(o)
	}
	close(start)
	done := make(chan struct{})
	go func() { wg.Wait(); close(done) }()
	select {
	case <-done:
	case <-time.After(watchdog):
		// a round that does not finish (deadlock / lost wake-up in the code under test) is not a data race: report it
		// as an observation and stop this scenario — a hanging change must cost seconds, not minutes
		fmt.Printf("stuck %s %d\n", scen, round)
		fmt.Printf("done %s rounds=%d calls=%d ok: stuck-after-round-%d\n", scen, round, atomic.LoadInt64(&calls), round)
		os.Exit(0)
	}
}

// ---------------------------------------------------------------------------------------------
// fake broker (scaffolding)

type broker struct {
	topic string
	parts int
	mu    sync.Mutex
	logs  map[int32][][]byte
	conns int64
	// single-member consumer group state
	generation int32
	committed  map[int32]int64
	group      *groupCoord // non-nil: multi-member coordinator
	extraRecs  int         // records per fetch response beyond 4
	nodes      []int32     // current broker ids of the cluster layout (nil: the single broker 1); guarded by mu
	tlsServer  *tls.Config // non-nil: the broker end of every connection speaks TLS
	maxProduce int16       // > 0: the highest Produce version ApiVersions offers (2 = a 0.10.x broker: message sets)
	maxFetch   int16       // > 0: the highest Fetch version offered (2: message-set responses; 5; 10)
	maxMeta    int16       // > 0: the highest Metadata version offered (1; 6)
	strayAfter int64       // > 0: see serve (stray response, then silence)
	served     int64
	maxJoin    int16 // > 0: the highest JoinGroup version offered (1; 2: response with a throttle time)
}

// groupCoord is a small multi-member group coordinator (scaffolding): a JoinGroup or LeaveGroup starts a
// rebalance, members learn about it through RebalanceInProgress on Heartbeat and rejoin, the round is
// completed `window` after the last join, the leader's SyncGroup distributes the assignments.
type groupCoord struct {
	mu          sync.Mutex
	window      time.Duration
	generation  int32
	members     map[string][]byte
	joined      map[string]bool
	rebalancing bool
	lastJoin    time.Time
	leader      string
	protocol    string
	assignments map[string][]byte
	synced      bool
	nextID      int
	rebalances  int
}

func newGroupCoord() *groupCoord {
	return &groupCoord{window: 40 * time.Millisecond, members: map[string][]byte{}, joined: map[string]bool{}}
}

func (g *groupCoord) join(r *joingroup.Request) *joingroup.Response {
	g.mu.Lock()
	member := r.MemberID
	if member == "" {
		g.nextID++
		member = fmt.Sprintf("member-%d", g.nextID)
	}
	var md []byte
	if len(r.Protocols) > 0 {
		md = r.Protocols[0].Metadata
		g.protocol = r.Protocols[0].Name
	}
	g.members[member] = md
	g.joined[member] = true
	g.rebalancing = true
	g.lastJoin = time.Now()
	start := g.generation
	deadline := time.Now().Add(3 * time.Second)
	for g.generation == start && time.Now().Before(deadline) {
		if g.rebalancing && time.Since(g.lastJoin) >= g.window {
			for m := range g.members { // members that did not rejoin are dropped
				if !g.joined[m] {
					delete(g.members, m)
				}
			}
			g.generation++
			g.rebalances++
			g.leader = ""
			for m := range g.members {
				if g.leader == "" || m < g.leader {
					g.leader = m
				}
			}
			g.joined, g.rebalancing, g.synced, g.assignments = map[string]bool{}, false, false, nil
			break
		}
		g.mu.Unlock()
		time.Sleep(3 * time.Millisecond)
		g.mu.Lock()
	}
	out := &joingroup.Response{GenerationID: g.generation, LeaderID: g.leader, MemberID: member, ProtocolName: g.protocol}
	if _, in := g.members[member]; !in || g.generation == start {
		out.ErrorCode = 27 // RebalanceInProgress: try again
	} else if member == g.leader {
		var ids []string
		for m := range g.members {
			ids = append(ids, m)
		}
		sort.Strings(ids)
		for _, m := range ids {
			out.Members = append(out.Members, joingroup.ResponseMember{MemberID: m, Metadata: g.members[m]})
		}
	}
	g.mu.Unlock()
	return out
}

func (g *groupCoord) sync(r *syncgroup.Request) *syncgroup.Response {
	g.mu.Lock()
	defer g.mu.Unlock()
	out := &syncgroup.Response{}
	if r.GenerationID != g.generation {
		out.ErrorCode = 22 // IllegalGeneration
		return out
	}
	if r.MemberID == g.leader {
		g.assignments = map[string][]byte{}
		for _, a := range r.Assignments {
			g.assignments[a.MemberID] = a.Assignment
		}
		g.synced = true
	}
	deadline := time.Now().Add(2 * time.Second)
	for !g.synced && !g.rebalancing && r.GenerationID == g.generation && time.Now().Before(deadline) {
		g.mu.Unlock()
		time.Sleep(2 * time.Millisecond)
		g.mu.Lock()
	}
	if !g.synced || r.GenerationID != g.generation {
		out.ErrorCode = 27
		return out
	}
	out.Assignments = g.assignments[r.MemberID]
	return out
}

func (g *groupCoord) heartbeat(member string, gen int32) int16 {
	g.mu.Lock()
	defer g.mu.Unlock()
	switch {
	case g.rebalancing:
		return 27
	case gen != g.generation:
		return 22
	}
	if _, in := g.members[member]; !in {
		return 25 // UnknownMemberId
	}
	return 0
}

func (g *groupCoord) leave(member string) {
	g.mu.Lock()
	delete(g.members, member)
	delete(g.joined, member)
	if len(g.members) > 0 {
		g.rebalancing = true
		g.lastJoin = time.Now()
	}
	g.mu.Unlock()
}

func newBroker(topic string, parts, preload int) *broker {
	b := &broker{topic: topic, parts: parts, logs: map[int32][][]byte{}}
	for p := 0; p < parts; p++ {
		for i := 0; i < preload; i++ {
			b.logs[int32(p)] = append(b.logs[int32(p)], []byte(fmt.Sprintf("v-%d-%d", p, i)))
		}
	}
	return b
}

func (b *broker) dial() net.Conn {
	cli, srv := net.Pipe()
	atomic.AddInt64(&b.conns, 1)
	if b.tlsServer != nil {
		go b.serve(tls.Server(srv, b.tlsServer))
	} else {
		go b.serve(srv)
	}
	return cli
}

// layout returns the brokers and the leader of each partition of the current cluster layout
func (b *broker) layout() ([]meta.ResponseBroker, func(p int) int32) {
	b.mu.Lock()
	nodes := append([]int32(nil), b.nodes...)
	b.mu.Unlock()
	if len(nodes) == 0 {
		return []meta.ResponseBroker{{NodeID: 1, Host: "fake", Port: 9092}}, func(int) int32 { return 1 }
	}
	var bs []meta.ResponseBroker
	for _, id := range nodes {
		bs = append(bs, meta.ResponseBroker{NodeID: id, Host: "fake" + strconv.Itoa(int(id)), Port: 9092})
	}
	return bs, func(p int) int32 { return nodes[p%len(nodes)] }
}

func (b *broker) setNodes(ids ...int32) {
	b.mu.Lock()
	b.nodes = append([]int32(nil), ids...)
	b.mu.Unlock()
}

// in-process PKI: one CA, one server certificate valid for the fake host names
var (
	pkiOnce   sync.Once
	pkiServer *tls.Config
	pkiRoots  *x509.CertPool
)

func pki() (*tls.Config, *x509.CertPool) {
	pkiOnce.Do(func() {
		caKey, _ := ecdsa.GenerateKey(elliptic.P256(), crand.Reader)
		caT := &x509.Certificate{SerialNumber: big.NewInt(1), Subject: pkix.Name{CommonName: "c10 fake CA"}, NotBefore: time.Now().Add(-time.Hour),
			NotAfter: time.Now().Add(24 * time.Hour), IsCA: true, KeyUsage: x509.KeyUsageCertSign, BasicConstraintsValid: true}
		caDER, _ := x509.CreateCertificate(crand.Reader, caT, caT, &caKey.PublicKey, caKey)
		ca, _ := x509.ParseCertificate(caDER)
		key, _ := ecdsa.GenerateKey(elliptic.P256(), crand.Reader)
		names := []string{"fake"}
		for i := 1; i <= 9; i++ {
			names = append(names, "fake"+strconv.Itoa(i))
		}
		t := &x509.Certificate{SerialNumber: big.NewInt(2), Subject: pkix.Name{CommonName: "fake"}, DNSNames: names, NotBefore: time.Now().Add(-time.Hour),
			NotAfter: time.Now().Add(24 * time.Hour), KeyUsage: x509.KeyUsageDigitalSignature, ExtKeyUsage: []x509.ExtKeyUsage{x509.ExtKeyUsageServerAuth}}
		der, _ := x509.CreateCertificate(crand.Reader, t, ca, &key.PublicKey, caKey)
		// TLS 1.2: strictly alternating handshake — net.Pipe is unbuffered and TLS 1.3 session tickets would deadlock it
		pkiServer = &tls.Config{Certificates: []tls.Certificate{{Certificate: [][]byte{der}, PrivateKey: key}}, MaxVersion: tls.VersionTLS12}
		pkiRoots = x509.NewCertPool()
		pkiRoots.AddCert(ca)
	})
	return pkiServer, pkiRoots
}

func (b *broker) serve(c net.Conn) {
	defer c.Close()
	for {
		v, corr, _, msg, err := protocol.ReadRequest(c)
		if err != nil {
			return
		}
		var resp protocol.Message
		switch r := msg.(type) {
		case *apiversions.Request:
			maxProduce := int16(7)
			if b.maxProduce > 0 {
				maxProduce = b.maxProduce
			}
			maxFetch, maxMeta := int16(10), int16(6)
			if b.maxFetch > 0 {
				maxFetch = b.maxFetch
			}
			if b.maxMeta > 0 {
				maxMeta = b.maxMeta
			}
			maxJoin := int16(1)
			if b.maxJoin > 0 {
				maxJoin = b.maxJoin
			}
			resp = &apiversions.Response{ApiKeys: []apiversions.ApiKeyResponse{
				{ApiKey: int16(protocol.Produce), MinVersion: 0, MaxVersion: maxProduce},
				{ApiKey: int16(protocol.Fetch), MinVersion: 0, MaxVersion: maxFetch},
				{ApiKey: int16(protocol.ListOffsets), MinVersion: 1, MaxVersion: 1},
				{ApiKey: int16(protocol.Metadata), MinVersion: 0, MaxVersion: maxMeta},
				{ApiKey: int16(protocol.ApiVersions), MinVersion: 0, MaxVersion: 0},
				{ApiKey: int16(protocol.OffsetCommit), MinVersion: 0, MaxVersion: 2},
				{ApiKey: int16(protocol.OffsetFetch), MinVersion: 0, MaxVersion: 1},
				{ApiKey: int16(protocol.FindCoordinator), MinVersion: 0, MaxVersion: 0},
				{ApiKey: int16(protocol.JoinGroup), MinVersion: 0, MaxVersion: maxJoin},
				{ApiKey: int16(protocol.Heartbeat), MinVersion: 0, MaxVersion: 0},
				{ApiKey: int16(protocol.LeaveGroup), MinVersion: 0, MaxVersion: 0},
				{ApiKey: int16(protocol.SyncGroup), MinVersion: 0, MaxVersion: 0},
			}}
		case *findcoordinator.Request:
			brokers, _ := b.layout()
			resp = &findcoordinator.Response{NodeID: brokers[0].NodeID, Host: brokers[0].Host, Port: brokers[0].Port}
		case *joingroup.Request:
			if b.group != nil {
				resp = b.group.join(r)
				break
			}
			b.mu.Lock()
			b.generation++
			gen := b.generation
			b.mu.Unlock()
			member := r.MemberID
			if member == "" {
				member = "member-1"
			}
			out := &joingroup.Response{GenerationID: gen, LeaderID: member, MemberID: member}
			if len(r.Protocols) > 0 {
				out.ProtocolName = r.Protocols[0].Name
				out.Members = []joingroup.ResponseMember{{MemberID: member, Metadata: r.Protocols[0].Metadata}}
			}
			resp = out
		case *syncgroup.Request:
			if b.group != nil {
				resp = b.group.sync(r)
				break
			}
			out := &syncgroup.Response{}
			for _, a := range r.Assignments {
				if a.MemberID == r.MemberID {
					out.Assignments = a.Assignment
				}
			}
			resp = out
		case *heartbeat.Request:
			out := &heartbeat.Response{}
			if b.group != nil {
				out.ErrorCode = b.group.heartbeat(r.MemberID, r.GenerationID)
			}
			resp = out
		case *leavegroup.Request:
			if b.group != nil {
				b.group.leave(r.MemberID)
			}
			resp = &leavegroup.Response{}
		case *offsetfetch.Request:
			out := &offsetfetch.Response{}
			for _, t := range r.Topics {
				rt := offsetfetch.ResponseTopic{Name: t.Name}
				for _, p := range t.PartitionIndexes {
					b.mu.Lock()
					off, okc := b.committed[p]
					b.mu.Unlock()
					if !okc {
						off = -1
					}
					rt.Partitions = append(rt.Partitions, offsetfetch.ResponsePartition{PartitionIndex: p, CommittedOffset: off})
				}
				out.Topics = append(out.Topics, rt)
			}
			resp = out
		case *offsetcommit.Request:
			out := &offsetcommit.Response{}
			for _, t := range r.Topics {
				rt := offsetcommit.ResponseTopic{Name: t.Name}
				for _, p := range t.Partitions {
					b.mu.Lock()
					if b.committed == nil {
						b.committed = map[int32]int64{}
					}
					b.committed[p.PartitionIndex] = p.CommittedOffset
					b.mu.Unlock()
					rt.Partitions = append(rt.Partitions, offsetcommit.ResponsePartition{PartitionIndex: p.PartitionIndex})
				}
				out.Topics = append(out.Topics, rt)
			}
			resp = out
		case *meta.Request:
			brokers, leader := b.layout()
			var ps []meta.ResponsePartition
			for p := 0; p < b.parts; p++ {
				l := leader(p)
				ps = append(ps, meta.ResponsePartition{PartitionIndex: int32(p), LeaderID: l, ReplicaNodes: []int32{l}, IsrNodes: []int32{l}})
			}
			resp = &meta.Response{Brokers: brokers, ControllerID: brokers[0].NodeID,
				Topics: []meta.ResponseTopic{{Name: b.topic, Partitions: ps}}}
		case *listoffsets.Request:
			out := &listoffsets.Response{}
			for _, t := range r.Topics {
				rt := listoffsets.ResponseTopic{Topic: t.Topic}
				for _, p := range t.Partitions {
					b.mu.Lock()
					n := int64(len(b.logs[p.Partition]))
					b.mu.Unlock()
					off := n
					if p.Timestamp == -2 {
						off = 0
					}
					rt.Partitions = append(rt.Partitions, listoffsets.ResponsePartition{Partition: p.Partition, Timestamp: p.Timestamp, Offset: off})
				}
				out.Topics = append(out.Topics, rt)
			}
			resp = out
		case *fetch.Request:
			out := &fetch.Response{}
			setVersion := int8(2)
			if v < 4 {
				setVersion = 1 // Fetch v0–v3: message sets (magic 1), what the v2 path of Conn.ReadBatchWith parses
			}
			for _, t := range r.Topics {
				rt := fetch.ResponseTopic{Topic: t.Topic}
				for _, p := range t.Partitions {
					b.mu.Lock()
					log := b.logs[p.Partition]
					var recs []protocol.Record
					for o := p.FetchOffset; o >= 0 && o < int64(len(log)) && len(recs) < 4+b.extraRecs; o++ {
						recs = append(recs, protocol.Record{Offset: o, Time: time.Unix(1, 0), Value: protocol.NewBytes(log[o])})
					}
					hwm := int64(len(log))
					b.mu.Unlock()
					if len(recs) == 0 {
						time.Sleep(5 * time.Millisecond) // empty long-poll
					}
					rt.Partitions = append(rt.Partitions, fetch.ResponsePartition{Partition: p.Partition, HighWatermark: hwm, LastStableOffset: hwm,
						RecordSet: protocol.RecordSet{Version: setVersion, Records: protocol.NewRecordReader(recs...)}})
				}
				out.Topics = append(out.Topics, rt)
			}
			resp = out
		case *produce.Request:
			out := &produce.Response{}
			for _, t := range r.Topics {
				rt := produce.ResponseTopic{Topic: t.Topic}
				for _, p := range t.Partitions {
					b.mu.Lock()
					base := int64(len(b.logs[p.Partition]))
					if p.RecordSet.Records != nil {
						for {
							rec, err := p.RecordSet.Records.ReadRecord()
							if err != nil {
								break
							}
							var val []byte
							if rec.Value != nil {
								val, _ = protocol.ReadAll(rec.Value)
							}
							b.logs[p.Partition] = append(b.logs[p.Partition], val)
						}
					}
					b.mu.Unlock()
					rt.Partitions = append(rt.Partitions, produce.ResponsePartition{Partition: p.Partition, BaseOffset: base})
				}
				out.Topics = append(out.Topics, rt)
			}
			if r.Acks == 0 {
				continue
			}
			resp = out
		default:
			if resp = zeroResponse(msg); resp == nil {
				return
			}
		}
		if b.strayAfter > 0 {
			// a misbehaving broker: after strayAfter regular answers, one response whose correlation id matches no
			// request in flight (a duplicate / stray response), then silence
			switch n := atomic.AddInt64(&b.served, 1); {
			case n == b.strayAfter+1:
				corr += 7777
			case n > b.strayAfter+1:
				continue
			}
		}
		if err := protocol.WriteResponse(c, v, corr, resp); err != nil {
			return
		}
	}
}

// message-level fake RoundTripper for the Writer (no sockets)
type fakeRT struct {
	partsOf func(topic string) int // optional: partition count per topic
	parts   int
	delay   time.Duration
	fail    int32 // every n-th produce fails with a temporary error (0 = never)
	n       int32
}

func (f *fakeRT) RoundTrip(ctx context.Context, addr net.Addr, req kafka.Request) (kafka.Response, error) {
	if f.delay > 0 {
		time.Sleep(f.delay)
	}
	switch r := req.(type) {
	case *meta.Request:
		n := f.parts
		if f.partsOf != nil {
			n = f.partsOf(r.TopicNames[0])
		}
		ps := make([]meta.ResponsePartition, n)
		for p := range ps {
			ps[p] = meta.ResponsePartition{PartitionIndex: int32(p), LeaderID: 1}
		}
		return &meta.Response{Brokers: []meta.ResponseBroker{{NodeID: 1, Host: "h", Port: 9092}},
			Topics: []meta.ResponseTopic{{Name: r.TopicNames[0], Partitions: ps}}}, nil
	case *produce.Request:
		code := int16(0)
		if f.fail > 0 && atomic.AddInt32(&f.n, 1)%f.fail == 0 {
			code = 7 // RequestTimedOut: temporary → retried
		}
		return &produce.Response{Topics: []produce.ResponseTopic{{Topic: r.Topics[0].Topic,
			Partitions: []produce.ResponsePartition{{Partition: r.Topics[0].Partitions[0].Partition, ErrorCode: code}}}}}, nil
	}
	return nil, fmt.Errorf("unexpected %T", req)
}

// ---------------------------------------------------------------------------------------------
// scenarios

// a user-supplied logger (goroutine-safe, as the Logger documentation requires): turns on the logging branches
var logged int64

func logger(rng *rand.Rand) kafka.Logger {
	if rng.Intn(2) == 0 {
		return nil
	}
	return kafka.LoggerFunc(func(string, ...interface{}) { atomic.AddInt64(&logged, 1) })
}

func msgs(rng *rand.Rand, n int) []kafka.Message {
	out := make([]kafka.Message, n)
	for i := range out {
		out[i] = kafka.Message{Key: []byte(strconv.Itoa(rng.Intn(50))), Value: bytes.Repeat([]byte{'x'}, 1+rng.Intn(40))}
	}
	return out
}

func scenBalancers(rng *rand.Rand, rounds int) {
	for i := 0; i < rounds; i++ {
		bals := map[string]kafka.Balancer{
			"RoundRobin": &kafka.RoundRobin{ChunkSize: rng.Intn(3)}, "LeastBytes": &kafka.LeastBytes{}, "Hash": &kafka.Hash{},
			"ReferenceHash": &kafka.ReferenceHash{}, "CRC32Balancer": kafka.CRC32Balancer{Consistent: rng.Intn(2) == 0},
			"Murmur2Balancer": kafka.Murmur2Balancer{Consistent: rng.Intn(2) == 0},
			// the non-default configuration: a user-supplied hasher shared by every call (the reason Hash.lock /
			// ReferenceHash.lock exist; with the default nil Hasher a pooled fnv hasher is used and nothing is shared)
			"Hash(Hasher)": &kafka.Hash{Hasher: fnv.New32a()}, "ReferenceHash(Hasher)": &kafka.ReferenceHash{Hasher: fnv.New32()},
		}
		also("Hash(Hasher).Balance", "Hash.Balance")
		also("ReferenceHash(Hasher).Balance", "ReferenceHash.Balance")
		var ops []op
		for name, b := range bals {
			name, b := name, b
			ms := msgs(rng, 8)
			if i%3 == 0 {
				ms[rng.Intn(len(ms))].Key = nil // nil keys take the round-robin / random path of the hash balancers
			}
			nparts := 1 + rng.Intn(6)
			ops = append(ops, op{name + ".Balance", func() {
				parts := make([]int, nparts)
				for j := range parts {
					parts[j] = j
				}
				for _, m := range ms {
					b.Balance(m, parts...)
				}
			}})
		}
		sort.Slice(ops, func(a, b int) bool { return ops[a].name < ops[b].name })
		runRound(rng, "balancers", i, ops, 12, 18)
	}
}

func scenWriter(rng *rand.Rand, rounds int) {
	for i := 0; i < rounds; i++ {
		rt := &fakeRT{parts: 1 + rng.Intn(3), delay: time.Duration(rng.Intn(3)) * time.Millisecond, fail: int32(rng.Intn(4))}
		var completions int64
		w := &kafka.Writer{Addr: kafka.TCP("fake:9092"), Topic: "t", Transport: rt, BatchTimeout: time.Duration(1+rng.Intn(5)) * time.Millisecond,
			BatchSize: 1 + rng.Intn(4), RequiredAcks: []kafka.RequiredAcks{kafka.RequireOne, kafka.RequireAll, kafka.RequireOne, kafka.RequireNone}[rng.Intn(4)], Async: rng.Intn(3) == 0, MaxAttempts: 3,
			Logger: logger(rng), ErrorLogger: logger(rng), BatchBytes: int64([]int{0, 64, 1 << 20}[rng.Intn(3)]),
			Compression:     []kafka.Compression{0, kafka.Snappy, kafka.Gzip, kafka.Lz4, kafka.Zstd}[rng.Intn(5)],
			WriteBackoffMin: time.Millisecond, WriteBackoffMax: 2 * time.Millisecond}
		switch rng.Intn(3) {
		case 0:
			w.Balancer = &kafka.LeastBytes{}
		case 1:
			switch rng.Intn(6) {
			case 0:
				w.Balancer = &kafka.Hash{}
			case 1:
				w.Balancer = &kafka.Hash{Hasher: fnv.New32a()}
			case 2:
				w.Balancer = &kafka.ReferenceHash{Hasher: fnv.New32()}
			case 3:
				w.Balancer = &kafka.ReferenceHash{}
			case 4:
				w.Balancer = kafka.CRC32Balancer{Consistent: rng.Intn(2) == 0}
			default:
				w.Balancer = kafka.Murmur2Balancer{Consistent: rng.Intn(2) == 0}
			}
		}
		if rng.Intn(2) == 0 {
			w.Completion = func(m []kafka.Message, err error) { atomic.AddInt64(&completions, int64(len(m))) }
		}
		ms := msgs(rng, 1+rng.Intn(6))
		closeDelay := time.Duration(rng.Intn(3)) * time.Millisecond
		ops := []op{
			{"Writer.WriteMessages", func() {
				ctx, cancel := context.WithTimeout(context.Background(), 2*time.Second)
				defer cancel()
				ok("Writer.WriteMessages", w.WriteMessages(ctx, append([]kafka.Message(nil), ms...)...))
			}},
			{"Writer.WriteMessages", func() {
				ctx, cancel := context.WithTimeout(context.Background(), 2*time.Second)
				defer cancel()
				w.WriteMessages(ctx, append([]kafka.Message(nil), ms[:1]...)...)
			}},
			{"Writer.Stats", func() { _ = w.Stats() }},
			{"Writer.Close", func() { time.Sleep(closeDelay); w.Close() }},
		}
		if i%2 == 0 {
			runRound(rng, "writer", i, ops, 5, 9, "Writer.Close")
		} else {
			runRound(rng, "writer", i, ops[:3], 5, 9)
		}
		w.Close()
	}
}

func scenCodecs(rng *rand.Rand, rounds int) {
	for i := 0; i < rounds; i++ {
		var ops []op
		for _, c := range []compress.Compression{compress.Gzip, compress.Snappy, compress.Lz4, compress.Zstd} {
			codec := c.Codec()
			data := bytes.Repeat([]byte(fmt.Sprintf("payload-%d-", rng.Intn(1000))), 1+rng.Intn(200))
			pkg := "compress/" + codec.Name() + ".Codec."
			also(codec.Name()+".roundtrip", pkg+"NewReader", pkg+"NewWriter", pkg+"Name", pkg+"Code")
			ops = append(ops, op{codec.Name() + ".roundtrip", func() {
				codec.Code()
				var buf bytes.Buffer
				w := codec.NewWriter(&buf)
				w.Write(data)
				w.Close()
				r := codec.NewReader(&buf)
				out, err := io.ReadAll(r)
				r.Close()
				if err != nil || !bytes.Equal(out, data) {
					fmt.Printf("codec-mismatch %s err=%v\n", codec.Name(), err)
				}
			}})
		}
		runRound(rng, "codecs", i, ops, 8, 14)
	}
}

// Writers over topics with GROWING partition counts (3, 64, 130, 300, 700, and beyond every round, so that the
// process-wide partition-list cache of writer.go is re-allocated in every round) while keyed messages go through
// the balancers that index / scan the offered partition list.
func scenWriterGrow(rng *rand.Rand, rounds int) {
	partsOf := func(topic string) int { n, _ := strconv.Atoi(strings.TrimPrefix(topic, "g")); return n }
	for i := 0; i < rounds; i++ {
		sizes := []int{3, 64, 130 + 384*i, 300 + 384*i, 700 + 384*i}
		mkBal := map[string]func() kafka.Balancer{
			"CRC32Balancer":   func() kafka.Balancer { return kafka.CRC32Balancer{} },
			"Murmur2Balancer": func() kafka.Balancer { return kafka.Murmur2Balancer{} },
			"LeastBytes":      func() kafka.Balancer { return &kafka.LeastBytes{} },
			"Hash":            func() kafka.Balancer { return &kafka.Hash{} },
			"RoundRobin":      func() kafka.Balancer { return nil },
		}
		var ops []op
		var writers []*kafka.Writer
		for _, bn := range []string{"CRC32Balancer", "Murmur2Balancer", "LeastBytes", "Hash", "RoundRobin"} {
			for k := 0; k < 2; k++ {
				w := &kafka.Writer{Addr: kafka.TCP("fake:9092"), Transport: &fakeRT{partsOf: partsOf}, Balancer: mkBal[bn](), BatchTimeout: time.Millisecond,
					BatchSize: 4, RequiredAcks: kafka.RequireOne, MaxAttempts: 1}
				writers = append(writers, w)
				order := rng.Perm(len(sizes))
				if k == 1 { // one writer of each kind starts with the topic that makes the cache grow
					order = append([]int{len(sizes) - 1 - rng.Intn(3)}, order...)
				}
				var ms []kafka.Message
				for _, si := range order {
					for q := 0; q < 2; q++ {
						ms = append(ms, kafka.Message{Topic: "g" + strconv.Itoa(sizes[si]), Key: []byte(strconv.Itoa(rng.Intn(5000))), Value: []byte("v")})
					}
				}
				also("Writer.WriteMessages/"+bn, "Writer.WriteMessages", bn+".Balance")
				ops = append(ops, op{"Writer.WriteMessages/" + bn, func() {
					for _, m := range ms { // one message per call: one partition-list lookup + Balance per call
						ctx, cancel := context.WithTimeout(context.Background(), 2*time.Second)
						ok("Writer.WriteMessages/grow", w.WriteMessages(ctx, m))
						cancel()
					}
				}})
			}
		}
		runRound(rng, "writergrow", i, ops, 10, 10)
		for _, w := range writers {
			w.Close()
		}
	}
}

// a destination that fails from its n-th Write on, a source that fails after n bytes
type failWriter struct{ n int }

func (f *failWriter) Write(p []byte) (int, error) {
	if f.n--; f.n < 0 {
		return 0, errors.New("fake: destination failed")
	}
	return len(p), nil
}

type failReader struct {
	r io.Reader
	n int
}

func (f *failReader) Read(p []byte) (int, error) {
	if f.n <= 0 {
		return 0, errors.New("fake: source failed")
	}
	if len(p) > f.n {
		p = p[:f.n]
	}
	n, err := f.r.Read(p)
	f.n -= n
	return n, err
}

// Codecs with failing destinations / sources (error at the n-th Write, at the final flush in Close, in the
// middle of the compressed stream), double Close (defer + explicit, as protocol/record_v1.go and callers do),
// concurrently with ordinary round trips through the same Codec values (shared pools).
func scenCodecFail(rng *rand.Rand, rounds int) {
	for i := 0; i < rounds; i++ {
		var ops []op
		for _, c := range []compress.Compression{compress.Gzip, compress.Snappy, compress.Lz4, compress.Zstd} {
			codec := c.Codec()
			name := codec.Name()
			pkg := "compress/" + name + ".Codec."
			small := []byte(fmt.Sprintf("small-%d", rng.Intn(1000)))
			big := bytes.Repeat([]byte(fmt.Sprintf("payload-%d-", rng.Intn(1000))), 2000+rng.Intn(3000))
			failAt := rng.Intn(3)
			cut := 1 + rng.Intn(40)
			for _, o := range []string{"roundtrip", "failclose", "failwrite", "failread", "doubleclose"} {
				also(name+"."+o, pkg+"NewReader", pkg+"NewWriter", pkg+"Name", pkg+"Code")
			}
			roundtrip := func(data []byte) {
				codec.Code()
				var buf bytes.Buffer
				w := codec.NewWriter(&buf)
				w.Write(data)
				w.Close()
				r := codec.NewReader(&buf)
				out, err := io.ReadAll(r)
				r.Close()
				if err != nil || !bytes.Equal(out, data) {
					fmt.Printf("codec-mismatch %s err=%v len=%d/%d\n", name, err, len(out), len(data))
				}
			}
			ops = append(ops,
				op{name + ".roundtrip", func() { roundtrip(big); roundtrip(small) }},
				op{name + ".failclose", func() { // nothing reaches the destination before the final flush: Close fails
					w := codec.NewWriter(&failWriter{n: 0})
					defer w.Close()
					w.Write(small)
					ok(name+".failclose", w.Close())
					w.Close() // explicit Close + the deferred one: closing twice must be harmless
					// whatever the failed Close gave back to the pools is taken out again by two users at once
					var wg sync.WaitGroup
					for k := 0; k < 4; k++ {
						wg.Add(1)
						go func() { defer wg.Done(); roundtrip(big); roundtrip(small) }()
					}
					wg.Wait()
				}},
				op{name + ".failwrite", func() { // the destination fails in the middle of the stream
					w := codec.NewWriter(&failWriter{n: failAt})
					defer w.Close()
					for k := 0; k < 4; k++ {
						w.Write(big)
					}
					ok(name+".failwrite", w.Close())
					roundtrip(big)
				}},
				op{name + ".failread", func() { // the compressed source breaks off with an error
					var buf bytes.Buffer
					w := codec.NewWriter(&buf)
					w.Write(big)
					w.Close()
					r := codec.NewReader(&failReader{r: &buf, n: cut})
					defer r.Close()
					_, err := io.ReadAll(r)
					ok(name+".failread", err)
					r.Close()
					roundtrip(small)
				}},
				op{name + ".doubleclose", func() {
					var buf bytes.Buffer
					w := codec.NewWriter(&buf)
					w.Write(small)
					w.Close()
					w.Close()
					r := codec.NewReader(&buf)
					io.ReadAll(r)
					r.Close()
					r.Close()
					roundtrip(small)
				}})
		}
		runRound(rng, "codecfail", i, ops, 14, 18, "gzip.failclose", "snappy.failclose", "lz4.failclose", "zstd.failclose")
	}
}

// Reader front methods against a dialer that always fails: start/stop of the internal readers,
// versions, offsets, stats — no broker needed.
func scenReaderFront(rng *rand.Rand, rounds int) {
	for i := 0; i < rounds; i++ {
		d := &kafka.Dialer{DialFunc: func(ctx context.Context, network, address string) (net.Conn, error) {
			return nil, errors.New("fake: no broker")
		}}
		r := kafka.NewReader(kafka.ReaderConfig{Brokers: []string{"fake:9092"}, Logger: logger(rng), ErrorLogger: logger(rng), Topic: "t", Partition: 0, Dialer: d, MaxWait: 10 * time.Millisecond,
			ReadBackoffMin: time.Millisecond, ReadBackoffMax: 2 * time.Millisecond, ReadLagInterval: time.Duration(rng.Intn(2)) * 5 * time.Millisecond})
		ops := readerOps(rng, r, 15*time.Millisecond)
		if i%2 == 0 {
			runRound(rng, "readerfront", i, ops, 5, 9, "Reader.Close", "Reader.FetchMessage", "Reader.SetOffset")
		} else {
			runRound(rng, "readerfront", i, ops[:len(ops)-1], 5, 9, "Reader.FetchMessage", "Reader.SetOffset")
		}
		r.Close()
	}
}

func readerOps(rng *rand.Rand, r *kafka.Reader, fetchTimeout time.Duration) []op {
	off := int64(rng.Intn(5))
	closeDelay := time.Duration(rng.Intn(4)) * time.Millisecond
	return []op{
		{"Reader.FetchMessage", func() {
			for k := 0; k < 3; k++ {
				ctx, cancel := context.WithTimeout(context.Background(), fetchTimeout)
				_, err := r.FetchMessage(ctx)
				ok("Reader.FetchMessage", err)
				cancel()
			}
		}},
		{"Reader.ReadMessage", func() {
			ctx, cancel := context.WithTimeout(context.Background(), fetchTimeout)
			r.ReadMessage(ctx)
			cancel()
		}},
		{"Reader.SetOffset", func() { r.SetOffset(off); r.SetOffset(off + 1) }},
		{"Reader.Offset", func() { r.Offset() }},
		{"Reader.Lag", func() { r.Lag() }},
		{"Reader.ReadLag", func() {
			ctx, cancel := context.WithTimeout(context.Background(), fetchTimeout)
			r.ReadLag(ctx)
			cancel()
		}},
		{"Reader.Stats", func() { r.Stats() }},
		{"Reader.Config", func() { r.Config() }},
		{"Reader.SetOffsetAt", func() {
			ctx, cancel := context.WithTimeout(context.Background(), fetchTimeout)
			ok("Reader.SetOffsetAt", r.SetOffsetAt(ctx, time.Unix(1, 0)))
			cancel()
		}},
		{"Reader.Close", func() { time.Sleep(closeDelay); r.Close() }},
	}
}

// Reader against the fake broker: messages flow.
func scenReader(rng *rand.Rand, rounds int) {
	for i := 0; i < rounds; i++ {
		b := newBroker("t", 1, 6+rng.Intn(6))
		d := &kafka.Dialer{DialFunc: func(ctx context.Context, network, address string) (net.Conn, error) { return b.dial(), nil }}
		r := kafka.NewReader(kafka.ReaderConfig{Brokers: []string{"fake:9092"}, Logger: logger(rng), ErrorLogger: logger(rng), Topic: "t", Partition: 0, Dialer: d, MinBytes: 1, MaxBytes: 1 << 20,
			MaxWait: 20 * time.Millisecond, ReadBackoffMin: time.Millisecond, ReadBackoffMax: 2 * time.Millisecond, QueueCapacity: 1 + rng.Intn(4)})
		ops := readerOps(rng, r, 100*time.Millisecond)
		if i%2 == 0 {
			runRound(rng, "reader", i, ops, 5, 9, "Reader.Close", "Reader.FetchMessage")
		} else {
			runRound(rng, "reader", i, ops[:len(ops)-1], 5, 9, "Reader.FetchMessage", "Reader.SetOffset")
		}
		r.Close()
	}
}

// Reader in consumer-group mode against the fake broker acting as a single-member group coordinator:
// subscribe/unsubscribe, commit loop, CommitMessages, Close.
func scenReaderGroup(rng *rand.Rand, rounds int) {
	also("Reader.FetchMessage+CommitMessages", "Reader.FetchMessage", "Reader.CommitMessages")
	also("Reader.Stats", "Reader.Offset", "Reader.Lag", "Reader.SetOffset", "Reader.Config")
	for i := 0; i < rounds; i++ {
		b := newBroker("t", 2, 5+rng.Intn(5))
		b.maxJoin, b.maxFetch, b.maxMeta = []int16{1, 2}[i%2], []int16{10, 5, 2}[(i/2)%3], []int16{6, 1}[(i/3)%2]
		d := &kafka.Dialer{DialFunc: func(ctx context.Context, network, address string) (net.Conn, error) { return b.dial(), nil }}
		commitEvery := time.Duration(rng.Intn(2)) * 5 * time.Millisecond
		r := kafka.NewReader(kafka.ReaderConfig{Brokers: []string{"fake:9092"}, Logger: logger(rng), ErrorLogger: logger(rng), GroupID: "g", Topic: "t", Dialer: d, MinBytes: 1, MaxBytes: 1 << 20,
			MaxWait: 20 * time.Millisecond, ReadBackoffMin: time.Millisecond, ReadBackoffMax: 2 * time.Millisecond, QueueCapacity: 1 + rng.Intn(4),
			HeartbeatInterval: 10 * time.Millisecond, CommitInterval: commitEvery, JoinGroupBackoff: 5 * time.Millisecond,
			SessionTimeout: 2 * time.Second, RebalanceTimeout: 2 * time.Second, PartitionWatchInterval: 20 * time.Millisecond, WatchPartitionChanges: rng.Intn(2) == 0})
		closeDelay := time.Duration(5+rng.Intn(30)) * time.Millisecond
		ops := []op{
			{"Reader.FetchMessage+CommitMessages", func() {
				for k := 0; k < 3; k++ {
					ctx, cancel := context.WithTimeout(context.Background(), 300*time.Millisecond)
					m, err := r.FetchMessage(ctx)
					ok("Reader.FetchMessage/group", err)
					if err == nil {
						ok("Reader.CommitMessages", r.CommitMessages(ctx, m))
					}
					cancel()
				}
			}},
			{"Reader.ReadMessage", func() {
				ctx, cancel := context.WithTimeout(context.Background(), 300*time.Millisecond)
				_, err := r.ReadMessage(ctx)
				ok("Reader.ReadMessage/group", err)
				cancel()
			}},
			{"Reader.Stats", func() { r.Stats(); r.Offset(); r.Lag(); r.SetOffset(3); r.Config() }},
			{"Reader.Close", func() { time.Sleep(closeDelay); r.Close() }},
		}
		if i%2 == 0 {
			runRound(rng, "readergroup", i, ops, 4, 7, "Reader.Close", "Reader.FetchMessage+CommitMessages")
		} else {
			runRound(rng, "readergroup", i, ops[:3], 4, 7, "Reader.FetchMessage+CommitMessages")
		}
		r.Close()
	}
}

// Several Readers of one consumer group against the multi-member coordinator: joins, a member leaving
// (Close) and a late joiner force rebalances, i.e. generations end (unsubscribe) and start (subscribe)
// while FetchMessage / CommitMessages / Stats / Close run.
func scenReaderRebalance(rng *rand.Rand, rounds int) {
	also("Reader.FetchMessage+CommitMessages", "Reader.FetchMessage", "Reader.CommitMessages")
	also("Reader.Stats", "Reader.Offset", "Reader.Lag", "Reader.Config")
	also("NewReader+Reader.FetchMessage", "Reader.FetchMessage", "Reader.Close")
	for i := 0; i < rounds; i++ {
		b := newBroker("t", 3, 4+rng.Intn(4))
		b.maxJoin = []int16{2, 1}[i%2]
		b.group = newGroupCoord()
		d := &kafka.Dialer{DialFunc: func(ctx context.Context, network, address string) (net.Conn, error) { return b.dial(), nil }}
		commitEvery := time.Duration(rng.Intn(2)) * 5 * time.Millisecond
		lg, elg := logger(rng), logger(rng) // mk runs inside operations: no rng there
		mk := func() *kafka.Reader {
			return kafka.NewReader(kafka.ReaderConfig{Brokers: []string{"fake:9092"}, Logger: lg, ErrorLogger: elg, GroupID: "g", Topic: "t", Dialer: d, MinBytes: 1, MaxBytes: 1 << 20,
				MaxWait: 20 * time.Millisecond, ReadBackoffMin: time.Millisecond, ReadBackoffMax: 2 * time.Millisecond, QueueCapacity: 2,
				HeartbeatInterval: 10 * time.Millisecond, CommitInterval: commitEvery, JoinGroupBackoff: 5 * time.Millisecond,
				SessionTimeout: 2 * time.Second, RebalanceTimeout: 2 * time.Second})
		}
		r1, r2 := mk(), mk()
		closeDelay := time.Duration(60+rng.Intn(120)) * time.Millisecond
		lateDelay := time.Duration(40+rng.Intn(120)) * time.Millisecond
		fetch := func(r *kafka.Reader, tag string) func() {
			return func() {
				for k := 0; k < 6; k++ {
					ctx, cancel := context.WithTimeout(context.Background(), 250*time.Millisecond)
					m, err := r.FetchMessage(ctx)
					ok("Reader.FetchMessage/"+tag, err)
					if err == nil {
						ok("Reader.CommitMessages/"+tag, r.CommitMessages(ctx, m))
					}
					cancel()
				}
			}
		}
		ops := []op{
			{"Reader.FetchMessage+CommitMessages", fetch(r1, "r1")},
			{"Reader.FetchMessage+CommitMessages", fetch(r2, "r2")},
			{"Reader.Stats", func() { r1.Stats(); r2.Stats(); r1.Offset(); r1.Lag(); r2.Config() }},
			{"Reader.Close", func() { time.Sleep(closeDelay); r2.Close() }},
			{"NewReader+Reader.FetchMessage", func() {
				time.Sleep(lateDelay)
				r3 := mk()
				fetch(r3, "r3")()
				r3.Close()
			}},
		}
		runRound(rng, "readerrebalance", i, ops, 5, 7, "Reader.Close", "NewReader+Reader.FetchMessage")
		r1.Close()
		r2.Close()
		b.group.mu.Lock()
		fmt.Printf("rebalances %d generations=%d\n", i, b.group.rebalances)
		okMu.Lock()
		okCnt["generations"] += b.group.rebalances
		okMu.Unlock()
		b.group.mu.Unlock()
	}
}

// Conn + Batch over net.Pipe
// scenConnProduce: the write side of a Conn against brokers of three generations — ApiVersions offers Produce up to
// v7, v3 or v2, which selects the three request builders of Conn.writeCompressedMessages (v2: message sets, only
// taken against 0.10.x brokers) — with every option setter of the write path running concurrently.
func scenConnProduce(rng *rand.Rand, rounds int) {
	also("Conn.WriteMessages", "Conn.WriteCompressedMessages")
	also("Conn.Write", "Conn.WriteCompressedMessages")
	also("Conn.WriteCompressedMessagesAt", "Conn.WriteCompressedMessages")
	for i := 0; i < rounds; i++ {
		b := newBroker("t", 1, 4)
		b.maxProduce = []int16{2, 3, 7}[i%3]
		c := kafka.NewConn(b.dial(), "t", 0)
		c.SetDeadline(time.Now().Add(5 * time.Second))
		acks := []int{1, -1}[rng.Intn(2)]
		codec := []kafka.CompressionCodec{nil, kafka.Snappy.Codec(), kafka.Gzip.Codec(), kafka.Lz4.Codec()}[rng.Intn(4)]
		ver := fmt.Sprintf("/v%d", b.maxProduce)
		ops := []op{
			{"Conn.WriteMessages", func() {
				_, err := c.WriteMessages(kafka.Message{Key: []byte("k"), Value: []byte("w")}, kafka.Message{Value: []byte("x")})
				ok("Conn.WriteMessages"+ver, err)
			}},
			{"Conn.Write", func() { _, err := c.Write([]byte("raw")); ok("Conn.Write"+ver, err) }},
			{"Conn.WriteCompressedMessagesAt", func() {
				_, _, _, _, err := c.WriteCompressedMessagesAt(codec, kafka.Message{Value: []byte("wc")}, kafka.Message{Value: []byte("wd")})
				ok("Conn.WriteCompressedMessagesAt"+ver, err)
			}},
			{"Conn.SetRequiredAcks", func() { ok("Conn.SetRequiredAcks", c.SetRequiredAcks(acks)) }},
			{"Conn.SetRequiredAcks", func() { ok("Conn.SetRequiredAcks", c.SetRequiredAcks(-acks)) }},
			{"Conn.SetWriteDeadline", func() { c.SetWriteDeadline(time.Now().Add(5 * time.Second)) }},
			{"Conn.SetDeadline", func() { c.SetDeadline(time.Now().Add(5 * time.Second)) }},
			{"Conn.Offset", func() { c.Offset() }},
		}
		var all []string
		for _, o := range ops {
			all = append(all, o.name)
		}
		runRound(rng, "connproduce", i, ops, len(ops), len(ops)+3, all...)
		c.Close()
	}
}

// scenBatch: every method of one open Batch concurrently, each in every round — including the error paths that write
// batch state: Read with a buffer shorter than the next value (io.ErrShortBuffer + rollback of the offset), Read /
// ReadMessage running into the end of the batch, Close racing with readers; fetch v2 / v5 / v10 responses.
func scenBatch(rng *rand.Rand, rounds int) {
	also("Batch.Offset", "Batch.HighWaterMark", "Batch.Throttle", "Batch.Partition")
	also("Batch.Read/short", "Batch.Read")
	also("Batch.Read/fit", "Batch.Read")
	also("Batch.open", "Conn.ReadBatch", "Conn.ReadBatchWith")
	for i := 0; i < rounds; i++ {
		b := newBroker("t", 1, 3+rng.Intn(6))
		b.extraRecs = rng.Intn(4)
		b.maxFetch = []int16{10, 2, 5}[i%3]
		c := kafka.NewConn(b.dial(), "t", 0)
		c.SetDeadline(time.Now().Add(5 * time.Second))
		bt := c.ReadBatch(1, 1<<16)
		closeDelay := time.Duration(rng.Intn(3)) * time.Millisecond
		short := rng.Intn(3) // the values are 5+ bytes long
		ops := []op{
			{"Batch.Read/short", func() { _, err := bt.Read(make([]byte, short)); ok("Batch.Read/short", err) }},
			{"Batch.Read/short", func() { _, err := bt.Read(make([]byte, 1, 2)); ok("Batch.Read/short", err) }},
			{"Batch.Read/fit", func() { _, err := bt.Read(make([]byte, 64)); ok("Batch.Read/fit", err) }},
			{"Batch.ReadMessage", func() { _, err := bt.ReadMessage(); ok("Batch.ReadMessage", err) }},
			{"Batch.Err", func() { bt.Err() }},
			{"Batch.Offset", func() { bt.Offset(); bt.HighWaterMark(); bt.Throttle(); bt.Partition() }},
			{"Batch.Offset", func() { bt.Offset() }},
			{"Batch.Close", func() { time.Sleep(closeDelay); ok("Batch.Close", bt.Close()) }},
		}
		if i%3 == 2 {
			ops = ops[2:] // no short read: ErrShortBuffer is sticky, the other methods only succeed without it
		}
		var all []string
		for _, o := range ops {
			if o.name != "Batch.Close" || i%2 == 0 {
				all = append(all, o.name)
			}
		}
		runRound(rng, "batch", i, ops, len(ops), len(ops)+4, all...)
		bt.Close()
		c.Close()
	}
}

// scenConnStray: several requests in flight on one Conn with a deadline, against a broker that answers the first few
// requests, then sends one response whose correlation id matches none of them and goes silent.  The waiting calls
// yield the read lock to each other over the stray response until the deadline passes; the first one to notice gives
// the connection up (abortRead) while the others are still peeking.
func scenConnStray(rng *rand.Rand, rounds int) {
	also("Conn.ReadOffsets", "Conn.ReadFirstOffset", "Conn.ReadLastOffset")
	for i := 0; i < rounds; i++ {
		b := newBroker("t", 1, 4)
		b.strayAfter = int64(1 + i%3) // the version negotiation (ApiVersions) is request 1
		c := kafka.NewConn(b.dial(), "t", 0)
		dl := time.Duration(20+rng.Intn(40)) * time.Millisecond
		c.SetDeadline(time.Now().Add(dl))
		ops := []op{
			{"Conn.ReadOffsets", func() { _, _, err := c.ReadOffsets(); ok("Conn.ReadOffsets/stray", err) }},
			{"Conn.ReadPartitions", func() { _, err := c.ReadPartitions("t"); ok("Conn.ReadPartitions/stray", err) }},
			{"Conn.Brokers", func() { _, err := c.Brokers(); ok("Conn.Brokers/stray", err) }},
			{"Conn.Controller", func() { _, err := c.Controller(); ok("Conn.Controller/stray", err) }},
			{"Conn.ReadOffset", func() { _, err := c.ReadOffset(time.Now()); ok("Conn.ReadOffset/stray", err) }},
			{"Conn.Offset", func() { c.Offset() }},
			{"Conn.SetReadDeadline", func() { c.SetReadDeadline(time.Now().Add(dl)) }},
		}
		var all []string
		for _, o := range ops {
			all = append(all, o.name)
		}
		runRound(rng, "connstray", i, ops, len(ops), len(ops)+3, all...)
		c.Close()
	}
}

func scenConn(rng *rand.Rand, rounds int) {
	also("Conn.Broker", "Conn.LocalAddr", "Conn.RemoteAddr")
	also("Conn.Read", "Conn.ReadBatch", "Conn.ReadBatchWith")
	also("Conn.ReadMessage", "Conn.ReadBatch", "Conn.ReadBatchWith")
	also("Batch.ReadMessage", "Conn.ReadBatch", "Conn.ReadBatchWith")
	also("Conn.ReadOffsets", "Conn.ReadFirstOffset", "Conn.ReadLastOffset")
	also("Conn.WriteMessages", "Conn.WriteCompressedMessages")
	also("Conn.Write", "Conn.WriteCompressedMessages")
	also("Conn.WriteCompressedMessagesAt", "Conn.WriteCompressedMessages")
	also("Batch.Offset", "Batch.HighWaterMark", "Batch.Throttle", "Batch.Partition")
	also("Batch.ReadAfterClose", "Batch.Close", "Batch.ReadMessage", "Batch.Read")
	for _, m := range []string{"Start", "Absolute", "End", "Current", "AbsoluteDontCheck", "CurrentDontCheck"} {
		also("Conn.Seek/"+m, "Conn.Seek")
	}
	for i := 0; i < rounds; i++ {
		b := newBroker("t", 1, 16)
		b.extraRecs = 8
		// the three produce paths of Conn.writeCompressedMessages: Produce v7, v3 (record batches), v2 (message
		// sets, what a 0.10.x broker offers)
		b.maxProduce = []int16{2, 7, 2, 3}[(i+i/4)%4]
		b.maxFetch = []int16{10, 2, 5}[(i+i/3)%3]
		b.maxMeta = []int16{6, 1}[(i/2)%2]
		fv, mv := fmt.Sprintf("/fetch-v%d", b.maxFetch), fmt.Sprintf("/metadata-v%d", b.maxMeta)
		c := kafka.NewConn(b.dial(), "t", 0)
		c.SetDeadline(time.Now().Add(5 * time.Second))
		var bmu sync.Mutex
		var batch *kafka.Batch
		getBatch := func() *kafka.Batch {
			bmu.Lock()
			defer bmu.Unlock()
			if batch == nil {
				batch = c.ReadBatch(1, 1<<16)
			}
			return batch
		}
		seekTo := int64(rng.Intn(4))
		acks := []int{1, -1}[rng.Intn(2)]
		codec := []kafka.CompressionCodec{nil, kafka.Snappy.Codec(), kafka.Gzip.Codec()}[rng.Intn(3)]
		closeDelay := time.Duration(1+rng.Intn(4)) * time.Millisecond
		seek := func(name string, off int64, whence int) op {
			return op{"Conn.Seek/" + name, func() { _, err := c.Seek(off, whence); ok("Conn.Seek/"+name, err) }}
		}
		ops := []op{
			{"Conn.SetDeadline", func() { c.SetDeadline(time.Now().Add(5 * time.Second)) }},
			{"Conn.SetReadDeadline", func() { c.SetReadDeadline(time.Now().Add(5 * time.Second)) }},
			{"Conn.SetWriteDeadline", func() { c.SetWriteDeadline(time.Now().Add(5 * time.Second)) }},
			{"Conn.Offset", func() { c.Offset() }},
			seek("AbsoluteDontCheck", seekTo, kafka.SeekAbsolute|kafka.SeekDontCheck),
			seek("CurrentDontCheck", 1, kafka.SeekCurrent|kafka.SeekDontCheck),
			seek("Absolute", seekTo+1, kafka.SeekAbsolute),
			seek("Current", 1, kafka.SeekCurrent),
			seek("Start", seekTo, kafka.SeekStart),
			seek("End", 1, kafka.SeekEnd),
			{"Conn.ReadOffsets", func() { _, _, err := c.ReadOffsets(); ok("Conn.ReadOffsets", err) }},
			{"Conn.ReadOffset", func() { _, err := c.ReadOffset(time.Now()); ok("Conn.ReadOffset", err) }},
			{"Conn.ReadPartitions", func() { _, err := c.ReadPartitions("t"); ok("Conn.ReadPartitions"+mv, err) }},
			{"Conn.ApiVersions", func() { _, err := c.ApiVersions(); ok("Conn.ApiVersions", err) }},
			{"Conn.WriteMessages", func() { _, err := c.WriteMessages(kafka.Message{Value: []byte("w")}); ok("Conn.WriteMessages", err) }},
			{"Conn.Write", func() { _, err := c.Write([]byte("raw")); ok("Conn.Write", err) }},
			{"Conn.WriteCompressedMessagesAt", func() {
				_, _, _, _, err := c.WriteCompressedMessagesAt(codec, kafka.Message{Value: []byte("wc")}, kafka.Message{Value: []byte("wd")})
				ok("Conn.WriteCompressedMessagesAt", err)
			}},
			{"Conn.SetRequiredAcks", func() { ok("Conn.SetRequiredAcks", c.SetRequiredAcks(acks)) }},
			{"Conn.ReadMessage", func() { _, err := c.ReadMessage(1 << 16); ok("Conn.ReadMessage"+fv, err) }},
			{"Conn.Brokers", func() { _, err := c.Brokers(); ok("Conn.Brokers", err) }},
			{"Conn.Controller", func() { _, err := c.Controller(); ok("Conn.Controller", err) }},
			{"Conn.CreateTopics", func() {
				ok("Conn.CreateTopics", c.CreateTopics(kafka.TopicConfig{Topic: "n", NumPartitions: 1, ReplicationFactor: 1}))
			}},
			{"Conn.DeleteTopics", func() { ok("Conn.DeleteTopics", c.DeleteTopics("n")) }},
			{"Conn.Read", func() { _, err := c.Read(make([]byte, 64)); ok("Conn.Read", err) }},
			{"Conn.Broker", func() { c.Broker(); c.LocalAddr(); c.RemoteAddr() }},
			{"Batch.ReadMessage", func() {
				bt := getBatch()
				_, err := bt.ReadMessage()
				ok("Batch.ReadMessage"+fv, err)
				bt.ReadMessage()
			}},
			{"Batch.Read", func() { bt := getBatch(); _, err := bt.Read(make([]byte, 2)); ok("Batch.Read", err) }},
			{"Batch.Err", func() { getBatch().Err() }},
			{"Batch.Offset", func() { bt := getBatch(); bt.Offset(); bt.HighWaterMark(); bt.Throttle(); bt.Partition() }},
			{"Batch.Close", func() { time.Sleep(2 * time.Millisecond); getBatch().Close() }},
			{"Batch.ReadAfterClose", func() {
				bt := getBatch()
				bt.ReadMessage() // the record-batch header is consumed, records are left
				bt.Close()
				for k := 0; k < 4; k++ { // a closed batch must not touch the connection any more (D18)
					bt.ReadMessage()
					bt.Read(make([]byte, 8))
				}
			}},
			{"Conn.Close", func() { time.Sleep(closeDelay); c.Close() }},
		}
		nConn := len(ops) - 7
		switch i % 4 {
		case 0, 2:
			// a Batch is open: operations that need the read lock wait for Batch.Close, which is always in
			runRound(rng, "conn", i, ops[:len(ops)-1], 8, 12, "Batch.Close", "Batch.ReadAfterClose", "Batch.ReadMessage", "Batch.Err", "Conn.Seek/AbsoluteDontCheck", "Conn.Seek/Absolute", "Conn.ReadOffsets", "Conn.ReadPartitions")
		case 1:
			runRound(rng, "conn", i, ops[:nConn], 8, 12, "Conn.Seek/Absolute", "Conn.Seek/CurrentDontCheck")
		default:
			// Close racing with everything (operations fail with a closed pipe from some point on)
			runRound(rng, "conn", i, append(append([]op(nil), ops[:nConn]...), ops[len(ops)-1]), 8, 12, "Conn.Close", "Conn.Seek/Absolute", "Conn.Seek/AbsoluteDontCheck")
		}
		bmu.Lock()
		if batch != nil {
			batch.Close()
		}
		bmu.Unlock()
		c.Close()
	}
}

// Every exported method of Client, found by reflection, against the fake broker through one Transport:
// func (c *Client) M(ctx, *MRequest) is called with a zero request (a few need a meaningful one and are
// written out); the broker answers APIs it does not implement with an empty response of the right type.
func scenClientAPIs(rng *rand.Rand, rounds int) {
	for i := 0; i < rounds; i++ {
		b := newBroker("t", 2, 4)
		tr := &kafka.Transport{Dial: func(ctx context.Context, network, address string) (net.Conn, error) { return b.dial(), nil },
			MetadataTTL: time.Duration(5+rng.Intn(20)) * time.Millisecond, IdleTimeout: time.Duration(5+rng.Intn(20)) * time.Millisecond, ClientID: "c10"}
		cl := &kafka.Client{Addr: kafka.TCP("fake:9092"), Transport: tr, Timeout: 2 * time.Second}
		special := map[string]func(ctx context.Context) error{
			"ConsumerOffsets": func(ctx context.Context) error {
				_, err := cl.ConsumerOffsets(ctx, kafka.TopicAndGroup{Topic: "t", GroupId: "g"})
				return err
			},
			"RawProduce": func(ctx context.Context) error {
				var buf bytes.Buffer
				rs := protocol.RecordSet{Version: 2, Records: protocol.NewRecordReader(protocol.Record{Value: protocol.NewBytes([]byte("raw"))})}
				rs.WriteTo(&buf)
				_, err := cl.RawProduce(ctx, &kafka.RawProduceRequest{Topic: "t", Partition: 0, RequiredAcks: kafka.RequireOne,
					RawRecords: protocol.RawRecordSet{Reader: &buf}})
				return err
			},
			"Produce": func(ctx context.Context) error {
				_, err := cl.Produce(ctx, &kafka.ProduceRequest{Topic: "t", Partition: 1, RequiredAcks: kafka.RequireOne,
					Records: kafka.NewRecordReader(kafka.Record{Value: kafka.NewBytes([]byte("p"))})})
				return err
			},
			"Fetch": func(ctx context.Context) error {
				_, err := cl.Fetch(ctx, &kafka.FetchRequest{Topic: "t", Partition: 0, MinBytes: 1, MaxBytes: 1 << 16, MaxWait: 10 * time.Millisecond})
				return err
			},
			"LeaveGroup": func(ctx context.Context) error {
				_, err := cl.LeaveGroup(ctx, &kafka.LeaveGroupRequest{GroupID: "g", Members: []kafka.LeaveGroupRequestMember{{ID: "m"}}})
				return err
			},
			"Metadata": func(ctx context.Context) error {
				_, err := cl.Metadata(ctx, &kafka.MetadataRequest{Topics: []string{"t"}})
				return err
			},
		}
		var ops []op
		cv := reflect.ValueOf(cl)
		for m := 0; m < cv.NumMethod(); m++ {
			name := cv.Type().Method(m).Name
			mv := cv.Method(m)
			also("Client."+name, "Transport.RoundTrip")
			if f, okS := special[name]; okS {
				ops = append(ops, op{"Client." + name, func() {
					ctx, cancel := context.WithTimeout(context.Background(), time.Second)
					defer cancel()
					ok("Client."+name, f(ctx))
				}})
				continue
			}
			mt := mv.Type()
			if mt.NumIn() != 2 || mt.In(1).Kind() != reflect.Ptr || mt.NumOut() != 2 {
				fmt.Printf("skipped Client.%s: unexpected signature %s\n", name, mt)
				continue
			}
			ops = append(ops, op{"Client." + name, func() {
				ctx, cancel := context.WithTimeout(context.Background(), time.Second)
				defer cancel()
				out := mv.Call([]reflect.Value{reflect.ValueOf(ctx), reflect.New(mt.In(1).Elem())})
				err, _ := out[1].Interface().(error)
				ok("Client."+name, err)
			}})
		}
		ops = append(ops, op{"Transport.CloseIdleConnections", func() { time.Sleep(time.Millisecond); tr.CloseIdleConnections() }})
		runRound(rng, "clientapis", i, ops, 12, 16)
		tr.CloseIdleConnections()
	}
}

// Transport / Client against the fake broker
func scenTransport(rng *rand.Rand, rounds int) {
	transportScenario(rng, rounds, "transport", false, false)
}

// the cluster layout (broker ids, partition leaders) changes between metadata refreshes while broker-routed
// requests are in flight
func scenTransportChurn(rng *rand.Rand, rounds int) {
	transportScenario(rng, rounds, "transportchurn", false, true)
}

// the same through TLS: one caller-owned *tls.Config without ServerName shared by the Transport (two bootstrap
// addresses = two pools) and by a Dialer
func scenTransportTLS(rng *rand.Rand, rounds int) {
	transportScenario(rng, rounds, "transporttls", true, true)
}

func transportScenario(rng *rand.Rand, rounds int, scen string, useTLS, churn bool) {
	for _, m := range []string{"Metadata", "Produce", "Fetch", "ListOffsets"} {
		also("Client."+m, "Transport.RoundTrip")
	}
	also("Dialer.DialLeader", "Dialer.DialPartition", "Dialer.LookupPartitions")
	also("Dialer.LookupLeader", "Dialer.LookupPartition", "Dialer.LookupPartitions")
	also("Dialer.Dial", "Dialer.DialContext")
	for i := 0; i < rounds; i++ {
		b := newBroker("t", 4, 4)
		var clientTLS *tls.Config
		if useTLS {
			srv, roots := pki()
			b.tlsServer = srv
			clientTLS = &tls.Config{RootCAs: roots} // no ServerName: the library has to derive it per connection
		}
		if churn {
			b.setNodes(1, 2, 3)
		}
		ttl := time.Duration(5+rng.Intn(20)) * time.Millisecond
		if churn {
			ttl = time.Duration(2+rng.Intn(4)) * time.Millisecond
		}
		dial := func(ctx context.Context, network, address string) (net.Conn, error) { return b.dial(), nil }
		tr := &kafka.Transport{Dial: dial, TLS: clientTLS, MetadataTTL: ttl, IdleTimeout: time.Duration(5+rng.Intn(20)) * time.Millisecond, ClientID: "c10"}
		addr1, addr2 := "fake:9092", "fake:9092"
		if churn {
			addr1, addr2 = "fake1:9092", "fake2:9092"
		}
		cl := &kafka.Client{Addr: kafka.TCP(addr1), Transport: tr, Timeout: 2 * time.Second}
		cl2 := &kafka.Client{Addr: kafka.TCP(addr2), Transport: tr, Timeout: 2 * time.Second}
		d := &kafka.Dialer{DialFunc: dial, TLS: clientTLS, Timeout: 2 * time.Second, ClientID: "c10"}
		ctx := context.Background()
		part := rng.Intn(4)
		idleDelay := time.Duration(rng.Intn(3)) * time.Millisecond
		reps := 1
		if churn {
			reps = 5
		}
		var layouts [][]int32
		for k := 0; k < 8; k++ {
			perm := rng.Perm(5)
			n := 1 + rng.Intn(4)
			var ids []int32
			for _, p := range perm[:n] {
				ids = append(ids, int32(p+1))
			}
			layouts = append(layouts, ids)
		}
		rep := func(f func()) func() {
			return func() {
				for k := 0; k < reps; k++ {
					f()
					if churn {
						time.Sleep(time.Millisecond)
					}
				}
			}
		}
		pick := func(k int) *kafka.Client {
			if k%2 == 0 {
				return cl
			}
			return cl2
		}
		ops := []op{
			{"Client.Metadata", rep(func() {
				_, err := cl.Metadata(ctx, &kafka.MetadataRequest{Topics: []string{"t"}})
				ok("Client.Metadata", err)
			})},
			{"Client.Produce", rep(func() {
				res, err := pick(part).Produce(ctx, &kafka.ProduceRequest{Topic: "t", Partition: part, RequiredAcks: kafka.RequireOne,
					Records: kafka.NewRecordReader(kafka.Record{Value: kafka.NewBytes([]byte("p"))})})
				if err == nil {
					err = res.Error
				}
				ok("Client.Produce", err)
			})},
			{"Client.Fetch", rep(func() {
				res, err := cl2.Fetch(ctx, &kafka.FetchRequest{Topic: "t", Partition: 0, Offset: 0, MinBytes: 1, MaxBytes: 1 << 16, MaxWait: 10 * time.Millisecond})
				n := 0
				if err == nil && res.Records != nil {
					for {
						if _, err := res.Records.ReadRecord(); err != nil {
							break
						}
						n++
					}
				}
				if err == nil && n == 0 {
					err = errors.New("no records")
				}
				ok("Client.Fetch", err)
			})},
			{"Client.ListOffsets", rep(func() {
				_, err := cl.ListOffsets(ctx, &kafka.ListOffsetsRequest{Topics: map[string][]kafka.OffsetRequest{"t": {kafka.FirstOffsetOf(0), kafka.LastOffsetOf(1), kafka.LastOffsetOf(2), kafka.FirstOffsetOf(3)}}})
				ok("Client.ListOffsets", err)
			})},
			{"Transport.CloseIdleConnections", func() { time.Sleep(idleDelay); tr.CloseIdleConnections() }},
			{"Writer.WriteMessages", rep(func() {
				w := &kafka.Writer{Addr: kafka.TCP(addr2), Topic: "t", Transport: tr, BatchTimeout: time.Millisecond, RequiredAcks: kafka.RequireOne, MaxAttempts: 2}
				c2, cancel := context.WithTimeout(ctx, 2*time.Second)
				ok("Writer.WriteMessages/transport", w.WriteMessages(c2, kafka.Message{Value: []byte("tw")}, kafka.Message{Key: []byte("k"), Value: []byte("tx")}))
				cancel()
				w.Close()
			})},
			{"Dialer.DialLeader", func() {
				c2, cancel := context.WithTimeout(ctx, 2*time.Second)
				defer cancel()
				conn, err := d.DialLeader(c2, "tcp", addr1, "t", part)
				ok("Dialer.DialLeader", err)
				if err == nil {
					conn.SetDeadline(time.Now().Add(2 * time.Second))
					_, _, err = conn.ReadOffsets()
					ok("Dialer.DialLeader/ReadOffsets", err)
					conn.Close()
				}
			}},
			{"Dialer.LookupLeader", func() {
				c2, cancel := context.WithTimeout(ctx, 2*time.Second)
				defer cancel()
				_, err := d.LookupLeader(c2, "tcp", addr2, "t", part)
				ok("Dialer.LookupLeader", err)
			}},
			{"Dialer.Dial", func() {
				conn, err := d.Dial("tcp", addr1)
				ok("Dialer.Dial", err)
				if err == nil {
					conn.SetDeadline(time.Now().Add(2 * time.Second))
					_, err = conn.ApiVersions()
					ok("Dialer.Dial/ApiVersions", err)
					conn.Close()
				}
			}},
		}
		if churn {
			ops = append(ops, op{"cluster.churn", func() {
				for _, ids := range layouts {
					b.setNodes(ids...)
					time.Sleep(ttl + time.Millisecond)
				}
			}})
			runRound(rng, scen, i, ops, 9, 12, "cluster.churn", "Client.Produce", "Client.ListOffsets", "Client.Fetch")
		} else {
			runRound(rng, scen, i, ops, 6, 10)
		}
		tr.CloseIdleConnections()
	}
}

var scenarios = map[string]func(*rand.Rand, int){
	"balancers": scenBalancers, "writer": scenWriter, "writergrow": scenWriterGrow, "codecfail": scenCodecFail, "codecs": scenCodecs, "readerfront": scenReaderFront,
	"reader": scenReader, "readergroup": scenReaderGroup, "readerrebalance": scenReaderRebalance, "conn": scenConn, "connproduce": scenConnProduce, "batch": scenBatch, "connstray": scenConnStray, "clientapis": scenClientAPIs, "transport": scenTransport, "transportchurn": scenTransportChurn, "transporttls": scenTransportTLS,
}

func main() {
	if len(os.Args) < 2 {
		var names []string
		for k := range scenarios {
			names = append(names, k)
		}
		sort.Strings(names)
		fmt.Println(strings.Join(names, " "))
		return
	}
	seed, _ := strconv.ParseInt(os.Getenv("VERIF_SEED"), 10, 64)
	if seed == 0 {
		seed = 1
	}
	rounds := 6
	if len(os.Args) > 2 {
		rounds, _ = strconv.Atoi(os.Args[2])
	}
	f, ok := scenarios[os.Args[1]]
	if !ok {
		fmt.Fprintln(os.Stderr, "unknown scenario")
		os.Exit(2)
	}
	var h int64
	for _, ch := range os.Args[1] {
		h = h*131 + int64(ch)
	}
	rng := rand.New(rand.NewSource(seed*7919 + h))
	totalRounds = rounds
	f(rng, rounds)
	for k, v := range alsoMap {
		fmt.Printf("opmap %s %s\n", k, strings.Join(v, ","))
	}
	var oks []string
	okMu.Lock()
	for k, v := range okCnt {
		oks = append(oks, fmt.Sprintf("%s=%d", k, v))
	}
	okMu.Unlock()
	sort.Strings(oks)
	fmt.Printf("done %s rounds=%d calls=%d ok: %s\n", os.Args[1], rounds, atomic.LoadInt64(&calls), strings.Join(oks, " "))
}
