// Driver for property C05: runs the REAL record-batch writers and readers of /repo and prints one line per
// case "<op> <args…>\t<implementation output>" for the oracle (lean/Oracle/C05.lean).
//
//	produce direction: records → protocol.RecordSet.WriteTo / Client.Produce / Conn.WriteMessages (bytes captured
//	    by a fake broker over net.Pipe) → `wire produce/…  <bytes>` with the records GIVEN as the claimed content;
//	    the Spec decoder must accept the bytes and return exactly those records.
//	fetch direction: layouts of message sets / record batches are encoded by the Spec encoder (the oracle is a
//	    co-process; compression by the codecs), decoded by protocol.RecordSet.ReadFrom, Client.Fetch and
//	    Conn.ReadBatch → `wire fetch/… <bytes>` with the records the implementation DECODED.
//	crc: hash/crc32 vs Spec/Crc;  wmodel2 / lmodel2: byte-exact writer models.
package main

import (
	"bufio"
	"bytes"
	"context"
	"encoding/binary"
	"errors"
	"fmt"
	"hash/crc32"
	"io"
	"math/rand"
	"net"
	"os"
	"strconv"
	"strings"
	"sync"
	"time"

	kafka "github.com/segmentio/kafka-go"
	"github.com/segmentio/kafka-go/compress"
	"github.com/segmentio/kafka-go/protocol"
	"github.com/segmentio/kafka-go/protocol/fetch"
	"github.com/segmentio/kafka-go/protocol/metadata"
	"github.com/segmentio/kafka-go/protocol/produce"

	"kvharness/internal/gen"
	"kvharness/internal/orc"
)

var out = bufio.NewWriterSize(os.Stdout, 1<<20)

func emit(op, impl string) { fmt.Fprintf(out, "%s\t%s\n", op, impl) }

// ---------------------------------------------------------------- records and canonical text

type rec struct {
	t     time.Time // produce direction
	ms    int64     // fetch direction (timestamp in ms) / expected ms
	off   int64
	key   []byte
	value []byte
	hdrs  []protocol.Header
}

func cb(b []byte, loose bool) string {
	switch {
	case b == nil && !loose:
		return "nil"
	case len(b) == 0:
		return "-"
	case len(b) <= 24:
		return fmt.Sprintf("%x", b)
	default:
		return fmt.Sprintf("#%d:%08x", len(b), crc32.ChecksumIEEE(b))
	}
}

func canonRec(off, ms int64, key, value []byte, hdrs []protocol.Header, loose bool) string {
	hs := "-"
	if len(hdrs) > 0 {
		parts := make([]string, len(hdrs))
		for i, h := range hdrs {
			parts[i] = cb([]byte(h.Key), true) + "=" + cb(h.Value, loose)
		}
		hs = strings.Join(parts, ";")
	}
	return fmt.Sprintf("o%d,t%d,k%s,v%s,h%s", off, ms, cb(key, loose), cb(value, loose), hs)
}

func canonList(xs []string) string {
	if len(xs) == 0 {
		return "none"
	}
	return strings.Join(xs, "|")
}

// wire text of bytes for the oracle's parser
func wb(b []byte) string {
	if b == nil {
		return "nil"
	}
	if len(b) == 0 {
		return "-"
	}
	return fmt.Sprintf("%x", b)
}

func wh(hdrs []protocol.Header) string {
	if len(hdrs) == 0 {
		return "-"
	}
	parts := make([]string, len(hdrs))
	for i, h := range hdrs {
		parts[i] = wb([]byte(h.Key)) + "=" + wb(h.Value)
	}
	return strings.Join(parts, "+")
}

// ---------------------------------------------------------------- generators

func compressible(r *rand.Rand, n int) []byte {
	b := make([]byte, n)
	seed := r.Intn(256)
	for i := range b {
		b[i] = byte(seed + i*131 + i/251)
	}
	return b
}

func genBytes(r *rand.Rand, allowNil bool, sizes []int) []byte {
	switch r.Intn(8) {
	case 0:
		if allowNil {
			return nil
		}
		return []byte{}
	case 1:
		return []byte{}
	}
	n := sizes[r.Intn(len(sizes))]
	if n == 0 {
		return []byte{}
	}
	if r.Intn(2) == 0 {
		return compressible(r, n)
	}
	return gen.Bytes(r, n)
}

var smallSizes = []int{1, 2, 3, 7, 16, 63, 64, 100, 127, 128, 129, 300}
var mediumSizes = []int{1000, 4095, 4096, 8191, 16383, 16384, 16385, 20000}
var largeSizes = []int{65535, 65536, 65537, 70000, 131072, 140001, 200000}

func genHdrs(r *rand.Rand) []protocol.Header {
	if r.Intn(3) != 0 {
		return nil
	}
	n := 1 + r.Intn(3)
	hs := make([]protocol.Header, n)
	for i := range hs {
		// lengths around the points where the (zig-zag) varint of a length grows by one byte — where a sizing function
		// and a writing function that disagree about the varint flavour part ways (seeded C05-m7)
		hs[i].Key = string(gen.Bytes(r, varintEdge(r, 6)))
		switch r.Intn(4) {
		case 0:
			hs[i].Value = nil
		case 1:
			hs[i].Value = []byte{}
		default:
			hs[i].Value = gen.Bytes(r, 1+varintEdge(r, 20))
		}
	}
	return hs
}

// varintEdge: mostly a length below `small`, otherwise one at a boundary of the varint encodings of lengths:
// zig-zag grows at 64 and 8192, the unsigned varint at 128 and 16384
func varintEdge(r *rand.Rand, small int) int {
	switch r.Intn(5) {
	case 0:
		return []int{62, 63, 64, 65, 100, 126, 127, 128, 129}[r.Intn(9)]
	case 1:
		if r.Intn(4) == 0 {
			return []int{8191, 8192, 8193, 16383, 16384}[r.Intn(5)]
		}
	}
	return r.Intn(small)
}

// genRecs: n records; class 0 small, 1 medium, 2 with large (several 64 KiB pages) values
func genRecs(r *rand.Rand, n, class int, headers bool) []rec {
	base := time.Unix(1600000000+int64(r.Intn(1000000)), int64(r.Intn(1000000000)))
	rs := make([]rec, n)
	for i := range rs {
		sizes := smallSizes
		if class == 1 && r.Intn(2) == 0 {
			sizes = mediumSizes
		}
		if class == 2 && (i == 0 || r.Intn(3) == 0) {
			sizes = largeSizes
		}
		rs[i].key = genBytes(r, true, smallSizes)
		rs[i].value = genBytes(r, true, sizes)
		if headers {
			rs[i].hdrs = genHdrs(r)
		}
		// sub-millisecond parts, not monotone
		rs[i].t = base.Add(time.Duration(r.Intn(5000000)-1000000) * time.Nanosecond * time.Duration(1+r.Intn(3)))
		if r.Intn(10) == 0 {
			rs[i].t = base.Add(time.Duration(r.Intn(200)) * time.Hour) // far apart
		}
		rs[i].ms = rs[i].t.UnixNano() / 1000000
	}
	return rs
}

// the D6 shape: base 0.9 ms, second record 1.1 ms after a whole second
func d6Recs() []rec {
	b := time.Unix(1600000000, 900000)
	t := time.Unix(1600000000, 1100000)
	return []rec{
		{t: b, ms: b.UnixNano() / 1000000, key: []byte("a"), value: []byte("x")},
		{t: t, ms: t.UnixNano() / 1000000, key: []byte("b"), value: []byte("y")},
	}
}

// ---------------------------------------------------------------- codecs

func codecOf(code int) compress.Codec { return compress.Compression(code).Codec() }

func compressWith(code int, plain []byte) []byte {
	var buf bytes.Buffer
	w := codecOf(code).NewWriter(&buf)
	w.Write(plain)
	w.Close()
	return buf.Bytes()
}

func decompressWith(code int, comp []byte) ([]byte, error) {
	r := codecOf(code).NewReader(bytes.NewReader(comp))
	defer r.Close()
	return io.ReadAll(r)
}

// ---------------------------------------------------------------- produce paths

func toProtoRecords(rs []rec) []protocol.Record {
	ps := make([]protocol.Record, len(rs))
	for i, r := range rs {
		ps[i] = protocol.Record{Time: r.t, Key: protocol.NewBytes(r.key), Value: protocol.NewBytes(r.value), Headers: r.hdrs}
	}
	return ps
}

func recordSetBytes(rs *protocol.RecordSet) ([]byte, error) {
	var buf bytes.Buffer
	if _, err := rs.WriteTo(&buf); err != nil {
		return nil, err
	}
	b := buf.Bytes()
	if len(b) < 4 || int(int32(binary.BigEndian.Uint32(b))) != len(b)-4 {
		return nil, fmt.Errorf("size prefix inconsistent with %d bytes", len(b))
	}
	return b[4:], nil
}

func produceProto(version int8, codec int, rs []rec) ([]byte, error) {
	set := protocol.RecordSet{Version: version, Attributes: protocol.Attributes(codec), Records: protocol.NewRecordReader(toProtoRecords(rs)...)}
	return recordSetBytes(&set)
}

type captureRT struct {
	requests   int
	apiVersion int16
	set        []byte
	err        error
}

// RoundTrip does what the Transport does with a produce request: Prepare(apiVersion) then protocol.WriteRequest;
// the record set is cut out of the serialized request frame.
func (c *captureRT) RoundTrip(ctx context.Context, addr net.Addr, req kafka.Request) (kafka.Response, error) {
	switch m := req.(type) {
	case *metadata.Request:
		return &metadata.Response{Brokers: []metadata.ResponseBroker{{NodeID: 1, Host: "fake", Port: 9092}}, ControllerID: 1,
			Topics: []metadata.ResponseTopic{{Name: "t", Partitions: []metadata.ResponsePartition{{PartitionIndex: 0, LeaderID: 1,
				ReplicaNodes: []int32{1}, IsrNodes: []int32{1}}}}}}, nil
	case *produce.Request:
		c.requests++
		m.Prepare(c.apiVersion)
		var buf bytes.Buffer
		if c.err = protocol.WriteRequest(&buf, c.apiVersion, 1, "c", m); c.err == nil {
			frame := buf.Bytes()
			if be32(frame) != len(frame)-4 {
				c.err = errors.New("request size prefix inconsistent")
			} else {
				c.set = produceSetOf(frame[4:])
			}
		}
		return &produce.Response{Topics: []produce.ResponseTopic{{Topic: m.Topics[0].Topic,
			Partitions: []produce.ResponsePartition{{Partition: m.Topics[0].Partitions[0].Partition}}}}}, nil
	}
	return nil, fmt.Errorf("unexpected request %T", req)
}

func produceClient(apiVersion int16, codec int, rs []rec) ([]byte, error) {
	rt := &captureRT{apiVersion: apiVersion}
	cl := &kafka.Client{Addr: kafka.TCP("fake:9092"), Transport: rt}
	_, err := cl.Produce(context.Background(), &kafka.ProduceRequest{Topic: "t", Partition: 0, RequiredAcks: kafka.RequireAll,
		Compression: compress.Compression(codec), Records: kafka.NewRecordReader(toProtoRecords(rs)...)})
	if err != nil {
		return nil, err
	}
	if rt.err == nil && rt.set == nil {
		return nil, errors.New("record set not found in request frame")
	}
	return rt.set, rt.err
}

// produceWriter: kafka.Writer → writerRecords → protocol.RecordSet, one batch holding all the messages
// (BatchSize = number of messages), the produce.Request serialised as the Transport would.
func produceWriter(apiVersion int16, codec int, rs []rec) ([]byte, error) {
	rt := &captureRT{apiVersion: apiVersion}
	w := &kafka.Writer{Addr: kafka.TCP("fake:9092"), Topic: "t", Transport: rt, BatchSize: len(rs), BatchBytes: 1 << 30,
		BatchTimeout: 200 * time.Millisecond, RequiredAcks: kafka.RequireAll, Compression: compress.Compression(codec), MaxAttempts: 1}
	msgs := make([]kafka.Message, len(rs))
	for i, r := range rs {
		msgs[i] = kafka.Message{Time: r.t, Key: r.key, Value: r.value, Headers: r.hdrs}
	}
	ctx, cancel := context.WithTimeout(context.Background(), 20*time.Second)
	defer cancel()
	err := w.WriteMessages(ctx, msgs...)
	w.Close()
	if err != nil {
		return nil, err
	}
	if rt.requests != 1 {
		return nil, fmt.Errorf("%d produce requests instead of one batch", rt.requests)
	}
	if rt.err == nil && rt.set == nil {
		return nil, errors.New("record set not found in request frame")
	}
	return rt.set, rt.err
}

// shapeRecs: one batch in which every ordered pair of the 9 key×value shapes (null / empty / non-empty each)
// occurs adjacently (an Eulerian circuit of the complete digraph with loops on 9 shapes: 82 records), so that
// state carried from one record to the next shows.
func shapeRecs(r *rand.Rand, headers bool) []rec {
	const S = 9
	next := make([][]int, S)
	for a := 0; a < S; a++ {
		next[a] = r.Perm(S)
	}
	var circuit []int
	stack := []int{r.Intn(S)}
	for len(stack) > 0 {
		v := stack[len(stack)-1]
		if len(next[v]) > 0 {
			u := next[v][0]
			next[v] = next[v][1:]
			stack = append(stack, u)
		} else {
			circuit = append(circuit, v)
			stack = stack[:len(stack)-1]
		}
	}
	mk := func(kind int) []byte {
		switch kind {
		case 0:
			return nil
		case 1:
			return []byte{}
		}
		return gen.Bytes(r, 1+r.Intn(9))
	}
	base := time.Unix(1600000000+int64(r.Intn(1000000)), int64(r.Intn(1000000000)))
	rs := make([]rec, len(circuit))
	for i, sh := range circuit {
		rs[i].key, rs[i].value = mk(sh/3), mk(sh%3)
		rs[i].t = base.Add(time.Duration(i*700) * time.Microsecond)
		rs[i].ms = rs[i].t.UnixNano() / 1000000
		if headers && r.Intn(3) == 0 {
			rs[i].hdrs = genHdrs(r)
		}
	}
	return rs
}

// produceSetOf cuts the record set out of a produce request frame (v2..v8, one topic, one partition);
// nil when the length fields do not add up.
func produceSetOf(frame []byte) []byte {
	defer func() { recover() }()
	ver := be16(frame[2:])
	p := 8 + 2 + be16(frame[8:]) // api key, version, correlation id, client id
	if ver >= 3 {
		n := be16(frame[p:])
		p += 2
		if n > 0 {
			p += n
		}
	}
	p += 2 + 4 + 4 // acks timeout topics
	tl := be16(frame[p:])
	p += 2 + tl + 4 + 4 // topic, partitions, partition
	n := be32(frame[p:])
	p += 4
	if p+n != len(frame) {
		return nil
	}
	return append([]byte(nil), frame[p:p+n]...)
}

// ---------------------------------------------------------------- fake broker over net.Pipe (Conn paths)

type fakeBroker struct {
	produceMax, fetchMax int16
	mu                   sync.Mutex
	captured             []byte // record set of the last produce request
	fetchSet             []byte
	hwm                  int64
}

func be16(b []byte) int  { return int(int16(binary.BigEndian.Uint16(b))) }
func be32(b []byte) int  { return int(int32(binary.BigEndian.Uint32(b))) }
func put16(v int) []byte { b := make([]byte, 2); binary.BigEndian.PutUint16(b, uint16(v)); return b }
func put32(v int) []byte { b := make([]byte, 4); binary.BigEndian.PutUint32(b, uint32(v)); return b }
func put64(v int64) []byte {
	b := make([]byte, 8)
	binary.BigEndian.PutUint64(b, uint64(v))
	return b
}
func cat(bs ...[]byte) []byte { return bytes.Join(bs, nil) }

func (f *fakeBroker) serve(c net.Conn) {
	defer c.Close()
	r := bufio.NewReader(c)
	for {
		var sz [4]byte
		if _, err := io.ReadFull(r, sz[:]); err != nil {
			return
		}
		frame := make([]byte, be32(sz[:]))
		if _, err := io.ReadFull(r, frame); err != nil {
			return
		}
		key, ver, corr := be16(frame), be16(frame[2:]), frame[4:8]
		p := 8 + 2 + be16(frame[8:]) // skip client id
		var body, topicBytes []byte
		switch key {
		case 18:
			body = cat(put16(0), put32(2), put16(0), put16(0), put16(int(f.produceMax)), put16(1), put16(0), put16(int(f.fetchMax)))
		case 0:
			p += 0
			{
				q := p
				if ver >= 3 {
					n := be16(frame[q:])
					q += 2
					if n > 0 {
						q += n
					}
				}
				q += 2 + 4 + 4
				tl := be16(frame[q:])
				topicBytes = frame[q : q+2+tl]
			}
			f.mu.Lock()
			f.captured = produceSetOf(frame)
			f.mu.Unlock()
			topic := topicBytes
			part := cat(put32(0), put16(0), put64(0), put64(-1))
			if ver >= 7 {
				part = cat(part, put64(0))
			}
			body = cat(put32(1), topic, put32(1), part, put32(0))
		case 1:
			f.mu.Lock()
			set, hwm := f.fetchSet, f.hwm
			f.mu.Unlock()
			switch {
			case ver >= 10:
				body = cat(put32(0), put16(0), put32(0), put32(1), put16(1), []byte("t"), put32(1),
					put32(0), put16(0), put64(hwm), put64(hwm), put64(0), put32(0), put32(len(set)), set)
			case ver >= 5:
				body = cat(put32(0), put32(1), put16(1), []byte("t"), put32(1),
					put32(0), put16(0), put64(hwm), put64(hwm), put64(0), put32(0), put32(len(set)), set)
			default:
				body = cat(put32(0), put32(1), put16(1), []byte("t"), put32(1), put32(0), put16(0), put64(hwm), put32(len(set)), set)
			}
		default:
			return
		}
		if _, err := c.Write(cat(put32(4+len(body)), corr, body)); err != nil {
			return
		}
	}
}

func newConn(f *fakeBroker) *kafka.Conn {
	cli, srv := net.Pipe()
	go f.serve(srv)
	c := kafka.NewConnWith(cli, kafka.ConnConfig{Topic: "t", Partition: 0})
	c.SetDeadline(time.Now().Add(20 * time.Second))
	return c
}

func produceConn(pv int16, codec int, rs []rec) (set []byte, err error) {
	f := &fakeBroker{produceMax: pv, fetchMax: 2}
	c := newConn(f)
	defer c.Close()
	msgs := make([]kafka.Message, len(rs))
	for i, r := range rs {
		msgs[i] = kafka.Message{Time: r.t, Key: r.key, Value: r.value, Headers: r.hdrs}
	}
	var nbytes int
	if codec == 0 {
		nbytes, err = c.WriteMessages(msgs...)
	} else {
		nbytes, err = c.WriteCompressedMessages(codecOf(codec), msgs...)
	}
	if err != nil {
		if nbytes != 0 {
			// "The write is an atomic operation, it either fully succeeds or fails": nothing was written
			return nil, fmt.Errorf("%w (and nbytes=%d reported together with the error)", err, nbytes)
		}
		return nil, err
	}
	f.mu.Lock()
	defer f.mu.Unlock()
	if f.captured == nil {
		return nil, errors.New("no record set captured / frame length inconsistent")
	}
	return f.captured, nil
}

// ---------------------------------------------------------------- fetch paths

func safely(f func() []string) (res []string) {
	defer func() {
		if p := recover(); p != nil {
			res = []string{fmt.Sprintf("panic:%v", p)}
		}
	}()
	return f()
}

func readAllRecords(rr protocol.RecordReader) []string {
	var xs []string
	if rr == nil {
		return xs
	}
	for {
		r, err := rr.ReadRecord()
		if err != nil {
			if !errors.Is(err, io.EOF) {
				xs = append(xs, "err:"+errClass(err))
			}
			return xs
		}
		k, e1 := protocol.ReadAll(r.Key)
		v, e2 := protocol.ReadAll(r.Value)
		if e1 != nil || e2 != nil {
			xs = append(xs, "err:readall")
			return xs
		}
		if r.Key != nil {
			r.Key.Close()
		}
		if r.Value != nil {
			r.Value.Close()
		}
		ms := int64(0) // the zero time.Time (a record without timestamp) prints as 0, as on the Conn path
		if !r.Time.IsZero() {
			ms = r.Time.UnixNano() / 1000000
		}
		xs = append(xs, canonRec(r.Offset, ms, k, v, r.Headers, false))
	}
}

func errClass(err error) string {
	s := err.Error()
	switch {
	case strings.Contains(s, "crc32"):
		return "crc"
	case errors.Is(err, io.ErrUnexpectedEOF):
		return "unexpected-eof"
	}
	if len(s) > 40 {
		s = s[:40]
	}
	return strings.ReplaceAll(s, " ", "_")
}

func withSize(set []byte) []byte { return cat(put32(len(set)), set) }

// fetchRecordSet: protocol.RecordSet.ReadFrom on the bytes (the Client/Transport path's decoder)
func fetchRecordSet(set []byte, mode int) []string {
	return safely(func() []string {
		var rs protocol.RecordSet
		var src io.Reader
		switch mode {
		case 0:
			src = bufio.NewReader(bytes.NewReader(withSize(set)))
		case 1:
			src = bufio.NewReaderSize(&slowReader{b: withSize(set), n: 1 + len(set)%977}, 64)
		default:
			src = &slowReader{b: withSize(set), n: 4096} // neither bufferedReader nor bytesBuffer
		}
		_, err := rs.ReadFrom(src)
		if err != nil {
			return nil // error: no record surfaced
		}
		return readAllRecords(rs.Records)
	})
}

type slowReader struct {
	b []byte
	n int
}

func (s *slowReader) Read(p []byte) (int, error) {
	if len(s.b) == 0 {
		return 0, io.EOF
	}
	n := s.n
	if n > len(p) {
		n = len(p)
	}
	if n > len(s.b) {
		n = len(s.b)
	}
	copy(p, s.b[:n])
	s.b = s.b[n:]
	return n, nil
}

type fetchRT struct{ set []byte }

func (f *fetchRT) RoundTrip(ctx context.Context, addr net.Addr, req kafka.Request) (kafka.Response, error) {
	switch req.(type) {
	case *fetch.Request:
		var rs protocol.RecordSet
		if _, err := rs.ReadFrom(bufio.NewReader(bytes.NewReader(withSize(f.set)))); err != nil {
			return nil, err
		}
		return &fetch.Response{Topics: []fetch.ResponseTopic{{Topic: "t", Partitions: []fetch.ResponsePartition{{Partition: 0, HighWatermark: 1 << 40, RecordSet: rs}}}}}, nil
	}
	return nil, fmt.Errorf("unexpected request %T", req)
}

func fetchClient(set []byte, offset int64) []string {
	return safely(func() []string {
		cl := &kafka.Client{Addr: kafka.TCP("fake:9092"), Transport: &fetchRT{set: set}}
		res, err := cl.Fetch(context.Background(), &kafka.FetchRequest{Topic: "t", Partition: 0, Offset: offset, MinBytes: 1, MaxBytes: 1 << 30, MaxWait: time.Second})
		if err != nil {
			return nil
		}
		return readAllRecords(res.Records)
	})
}

func fetchConn(set []byte, offset, next int64, fv int16) []string {
	return safely(func() []string {
		f := &fakeBroker{produceMax: 7, fetchMax: fv, fetchSet: set, hwm: next}
		c := newConn(f)
		defer c.Close()
		if _, err := c.Seek(offset, kafka.SeekAbsolute|kafka.SeekDontCheck); err != nil {
			return []string{"err:seek"}
		}
		b := c.ReadBatch(1, 1<<30)
		defer b.Close()
		var xs []string
		for {
			m, err := b.ReadMessage()
			if err != nil {
				if !errors.Is(err, io.EOF) {
					xs = append(xs, "err:"+errClass(err))
				}
				return xs
			}
			ms := int64(0)
			if !m.Time.IsZero() {
				ms = m.Time.UnixNano() / 1000000
			}
			xs = append(xs, canonRec(m.Offset, ms, m.Key, m.Value, m.Headers, false)) // exact: null and empty are told apart since fix 4db07b4
		}
	})
}

// ---------------------------------------------------------------- layouts (fetch direction)

type entryPlan struct {
	kind    string // m0 m1 w1 b2
	codec   int
	control bool
	txn     bool
	recs    []rec
	sparse  bool
	empty   bool // v2 batch whose records were all compacted away (header retained, count 0)
	extra   int  // attribute bits the library never writes but brokers do: timestamp type, delete horizon, unknown bits
}

type built struct {
	bytes []byte
	zs    []string
	desc  []string
	ends  []int // end position of each wire entry (for corruption)
	crcAt []int // position of a CRC field byte per wire entry
	next  int64
	ctl   bool
}

func ask(o *orc.Oracle, line string) []byte {
	ans, err := o.Ask(line)
	if err != nil || ans == "error" || strings.HasPrefix(ans, "bad") {
		fmt.Fprintf(os.Stderr, "oracle encode failed: %v %q for %.200s\n", err, ans, line)
		os.Exit(3)
	}
	if ans == "-" || ans == "" {
		return []byte{}
	}
	b := make([]byte, len(ans)/2)
	for i := range b {
		v, _ := strconv.ParseUint(ans[2*i:2*i+2], 16, 8)
		b[i] = byte(v)
	}
	return b
}

func build(o *orc.Oracle, r *rand.Rand, base int64, plan []entryPlan) *built {
	bt := &built{next: base}
	for _, e := range plan {
		n := len(e.recs)
		nt := ""
		if n > 0 && e.recs[0].ms == -1 {
			nt = "nt" // no timestamp
		}
		switch e.kind {
		case "m0", "m1":
			magic := 0
			if e.kind == "m1" {
				magic = 1
			}
			for _, x := range e.recs {
				ms := x.ms
				if magic == 0 {
					ms = 0
				}
				start := len(bt.bytes)
				bt.bytes = append(bt.bytes, ask(o, fmt.Sprintf("encset m:%d:%d:%d:%d:%s:%s", magic, bt.next, int(int8(e.extra)), ms, wb(x.key), wb(x.value)))...)
				bt.next++
				bt.ends = append(bt.ends, len(bt.bytes))
				bt.crcAt = append(bt.crcAt, start+12+r.Intn(4))
			}
			bt.desc = append(bt.desc, fmt.Sprintf("%sx%d%s", e.kind, n, extraTag(e.extra)+nt))
		case "w1":
			var parts []string
			rel := int64(0)
			for i, x := range e.recs {
				if e.sparse && i > 0 && r.Intn(2) == 0 {
					rel += int64(1 + r.Intn(3))
				}
				parts = append(parts, fmt.Sprintf("m:1:%d:0:%d:%s:%s", rel, x.ms, wb(x.key), wb(x.value)))
				rel++
			}
			inner := ask(o, "encset "+strings.Join(parts, " "))
			comp := compressWith(e.codec, inner)
			wrapperOff := bt.next + rel - 1
			start := len(bt.bytes)
			// the wrapper's key: null as producers write it; the format allows bytes there (C05-D31), also empty
			wkey, wkeyLen, ktag := "nil", 0, ""
			switch r.Intn(4) {
			case 0:
				k := gen.Bytes(r, 1+r.Intn(9))
				wkey, wkeyLen, ktag = wb(k), len(k), "k"
			case 1:
				if r.Intn(2) == 0 {
					wkey, ktag = "-", "k0"
				}
			}
			bt.bytes = append(bt.bytes, ask(o, fmt.Sprintf("encset m:1:%d:%d:%d:%s:%s", wrapperOff, int(int8(e.codec|e.extra)), e.recs[n-1].ms, wkey, wb(comp)))...)
			bt.zs = append(bt.zs, fmt.Sprintf("z%d:%d:%s", start+34+wkeyLen, len(comp), wb(inner)))
			bt.next = wrapperOff + 1
			bt.ends = append(bt.ends, len(bt.bytes))
			bt.crcAt = append(bt.crcAt, start+12+r.Intn(4))
			bt.desc = append(bt.desc, fmt.Sprintf("w1c%dx%d%s%s%s", e.codec, n, map[bool]string{true: "s", false: ""}[e.sparse], ktag, extraTag(e.extra)+nt))
		case "b2":
			if e.empty {
				// a batch whose records were all compacted away: the broker keeps the header (count 0, the offset range)
				n = 0
				e.recs, e.codec, e.control, e.sparse = e.recs[:1], 0, false, false
			}
			first, max := e.recs[0].ms, e.recs[0].ms
			if e.empty {
				e.recs = nil
			}
			var parts []string
			delta := int64(0)
			for i, x := range e.recs {
				if e.sparse && i > 0 && r.Intn(2) == 0 {
					delta += int64(1 + r.Intn(3))
				}
				if x.ms > max {
					max = x.ms
				}
				parts = append(parts, fmt.Sprintf("%d,%d,%s,%s,%s", x.ms-first, delta, wb(x.key), wb(x.value), wh(x.hdrs)))
				delta++
			}
			lod := delta - 1
			if e.sparse && r.Intn(2) == 0 {
				lod += int64(r.Intn(3)) // trailing records compacted away
			}
			payload := []byte{}
			if e.empty {
				lod = int64(r.Intn(3))
			} else {
				payload = ask(o, "encrecs "+strings.Join(parts, ";"))
			}
			attrs := int(int16(e.codec | e.extra))
			if e.txn {
				attrs |= 16
			}
			if e.control {
				attrs |= 32
				bt.ctl = true
			}
			stored := payload
			if e.codec != 0 {
				stored = compressWith(e.codec, payload)
			}
			start := len(bt.bytes)
			bt.bytes = append(bt.bytes, ask(o, fmt.Sprintf("encset b:%d:%d:%d:%d:%d:%d:%d:%d:%d:%d:%s", bt.next, r.Intn(5), attrs, lod, first, max,
				int64(r.Intn(3))-1, r.Intn(3)-1, r.Intn(3)-1, n, wb(stored)))...)
			if e.codec != 0 {
				bt.zs = append(bt.zs, fmt.Sprintf("z%d:%d:%s", start+61, len(stored), wb(payload)))
			}
			bt.next += lod + 1
			bt.ends = append(bt.ends, len(bt.bytes))
			if r.Intn(2) == 0 {
				bt.crcAt = append(bt.crcAt, start+17+r.Intn(4))
			} else {
				bt.crcAt = append(bt.crcAt, len(bt.bytes)-1)
			}
			flags := ""
			if e.control {
				flags += "ctl"
			}
			if e.txn {
				flags += "txn"
			}
			if e.sparse {
				flags += "s"
			}
			if e.empty {
				flags += "e"
			}
			bt.desc = append(bt.desc, fmt.Sprintf("b2c%dx%d%s%s", e.codec, n, flags, extraTag(e.extra)+nt))
		}
	}
	return bt
}

func extraTag(x int) string {
	if x == 0 {
		return ""
	}
	return fmt.Sprintf("a%x", x)
}

// extraBits: attribute bits set by brokers, never by this library: bit 3 timestamp type (LogAppendTime) for v1 and
// v2; v2 only: bit 6 delete horizon, unknown bits 7..15; v1: unknown bits 4..7
func extraBits(r *rand.Rand, kind string) int {
	if kind == "m0" || r.Intn(2) == 0 {
		return 0
	}
	x := 0
	if r.Intn(2) == 0 {
		x |= 8
	}
	if kind == "b2" {
		if r.Intn(4) == 0 {
			x |= 64
		}
		if r.Intn(4) == 0 {
			x |= 1 << uint(7+r.Intn(9))
		}
	} else if r.Intn(4) == 0 {
		x |= 1 << uint(4+r.Intn(4))
	}
	return x
}

func controlRecs(r *rand.Rand, ms int64) []rec {
	typ := byte(r.Intn(2))
	return []rec{{ms: ms, key: []byte{0, 0, 0, typ}, value: []byte{0, 0, 0, 0, 0, byte(r.Intn(9))}}}
}

var sparseW1 = os.Getenv("VERIF_C05_SPARSEW1") != "0"

func genPlan(r *rand.Rand, class int, thorough bool) []entryPlan {
	ne := 1 + r.Intn(4)
	var plan []entryPlan
	family := r.Intn(3) // 0: legacy only, 1: v2 only, 2: mixed
	for i := 0; i < ne; i++ {
		n := 1 + r.Intn(5)
		cls := class
		if class == 2 && i > 0 {
			cls = 0
		}
		rs := genRecs(r, n, cls, true)
		for j := range rs {
			if rs[j].ms < 0 {
				rs[j].ms = -rs[j].ms
			}
		}
		var k string
		switch {
		case family == 0 || (family == 2 && r.Intn(2) == 0):
			k = []string{"m0", "m1", "w1"}[r.Intn(3)]
		default:
			k = "b2"
		}
		if k != "m0" && r.Intn(8) == 0 {
			// records without a timestamp (-1, NO_TIMESTAMP: produced by pre-0.10 clients and kept by up-conversion)
			for j := range rs {
				rs[j].ms = -1
			}
		}
		e := entryPlan{kind: k, recs: rs, extra: extraBits(r, k)}
		switch k {
		case "w1":
			e.codec = 1 + r.Intn(4)
			// compacted wrapper (gaps in the relative inner offsets): see known finding D15
			e.sparse = sparseW1 && r.Intn(2) == 0
		case "b2":
			e.codec = r.Intn(5)
			e.txn = r.Intn(5) == 0
			e.sparse = r.Intn(4) == 0
			if r.Intn(6) == 0 {
				e.control, e.codec, e.sparse = true, 0, false
				e.recs = controlRecs(r, rs[0].ms)
			} else if r.Intn(8) == 0 {
				e.empty = true // an empty retained batch (C02-D4 / D14 are fixed: both paths pass over it)
			}
		}
		plan = append(plan, e)
	}
	return plan
}

// ---------------------------------------------------------------- pages (observational)

// pagesTest: holders decode a record set and keep the key/value Bytes open; meanwhile churners decode and
// release other record sets (their pages go back to the pool and are reused); the held bytes must stay intact
// until released.
func pagesTest(r *rand.Rand, holders, churners, rounds int) string {
	type held struct {
		b    protocol.Bytes
		want []byte
	}
	mk := func(seed int64, class int) ([]byte, []rec) {
		lr := rand.New(rand.NewSource(seed))
		rs := genRecs(lr, 2+lr.Intn(4), class, false)
		set, err := produceProto(2, []int{0, 2, 4}[lr.Intn(3)], rs)
		if err != nil {
			return nil, nil
		}
		return set, rs
	}
	var wg sync.WaitGroup
	stop := make(chan struct{})
	errs := make(chan string, holders+churners)
	for c := 0; c < churners; c++ {
		wg.Add(1)
		seed := r.Int63()
		go func() {
			defer wg.Done()
			lr := rand.New(rand.NewSource(seed))
			for {
				select {
				case <-stop:
					return
				default:
				}
				set, _ := mk(lr.Int63(), 2)
				if xs := fetchRecordSet(set, 0); len(xs) == 0 {
					errs <- "churner decoded nothing"
					return
				}
			}
		}()
	}
	var hw sync.WaitGroup
	for h := 0; h < holders; h++ {
		hw.Add(1)
		seed := r.Int63()
		go func() {
			defer hw.Done()
			defer func() {
				if p := recover(); p != nil {
					errs <- fmt.Sprintf("panic:%v", p)
				}
			}()
			lr := rand.New(rand.NewSource(seed))
			for round := 0; round < rounds; round++ {
				set, rs := mk(lr.Int63(), 2)
				var rset protocol.RecordSet
				if _, err := rset.ReadFrom(bufio.NewReader(bytes.NewReader(withSize(set)))); err != nil {
					errs <- "holder decode: " + err.Error()
					return
				}
				var hs []held
				for i := 0; ; i++ {
					rec, err := rset.Records.ReadRecord()
					if err != nil {
						break
					}
					if rec.Key != nil {
						hs = append(hs, held{rec.Key, rs[i].key})
					}
					if rec.Value != nil {
						hs = append(hs, held{rec.Value, rs[i].value})
					}
				}
				time.Sleep(time.Duration(lr.Intn(3)) * time.Millisecond) // let the churners recycle pages
				for _, x := range hs {
					got, err := protocol.ReadAll(x.b)
					if err != nil || !bytes.Equal(got, x.want) {
						errs <- fmt.Sprintf("held bytes changed (len %d, want len %d)", len(got), len(x.want))
						return
					}
					x.b.Close()
				}
			}
		}()
	}
	hw.Wait()
	close(stop)
	wg.Wait()
	select {
	case e := <-errs:
		return e
	default:
		return "ok"
	}
}

// ---------------------------------------------------------------- page buffer operations (data path)

func patternBytes(n, seed int) []byte {
	b := make([]byte, n)
	for i := range b {
		b[i] = byte(seed + i*131 + i/251)
	}
	return b
}

func digestOf(b []byte) string { return fmt.Sprintf("%d:%08x", len(b), crc32.ChecksumIEEE(b)) }

// pagedSetCase: RecordSet.WriteTo (version 2, uncompressed) appended to a real page buffer that already holds `pre`
// bytes; the result is the buffer content from 16 bytes before the record set to the end.
func pagedSetCase(pre int, codec int, rs []rec) (string, string) {
	op := fmt.Sprintf("pwset2 %d 0 0 %s", pre, recsArg(rs, false))
	out := ""
	res := guard2(func() {
		pb := protocol.VerifNewPageBuffer()
		defer pb.Unref()
		prefix := make([]byte, pre)
		for i := range prefix {
			prefix[i] = byte(i % 251)
		}
		pb.Write(prefix)
		set := protocol.RecordSet{Version: 2, Attributes: protocol.Attributes(codec), Records: protocol.NewRecordReader(toProtoRecords(rs)...)}
		if _, err := pb.WriteRecordSet(&set); err != nil {
			out = "error"
			return
		}
		from := pre - 16
		if from < 0 {
			from = 0
		}
		tail := pb.ReadAt(int(pb.Size())-from, int64(from))
		out = wb(tail)
		if codec != 0 {
			plain := ""
			if d, err := decompressWith(codec, tail[pre-from+4+61:]); err == nil {
				plain = wb(d)
			}
			op = fmt.Sprintf("pwset2c %d %d 0 %s %s", pre, codec, recsArg(rs, false), plain)
		}
	})
	if res != "" {
		return op, res
	}
	return op, out
}

// pagedSetV1Case: RecordSet.WriteTo (version 1, codec 0..4) appended to a real page buffer that already holds `pre` bytes
func pagedSetV1Case(pre int, codec int, rs []rec) (string, string) {
	op := fmt.Sprintf("pwset1 %d %d %s -", pre, codec, recsArg(rs, false))
	out := ""
	res := guard2(func() {
		pb := protocol.VerifNewPageBuffer()
		defer pb.Unref()
		prefix := make([]byte, pre)
		for i := range prefix {
			prefix[i] = byte(i % 251)
		}
		pb.Write(prefix)
		set := protocol.RecordSet{Version: 1, Attributes: protocol.Attributes(codec), Records: protocol.NewRecordReader(toProtoRecords(rs)...)}
		if _, err := pb.WriteRecordSet(&set); err != nil {
			out = "error"
			return
		}
		from := pre - 16
		if from < 0 {
			from = 0
		}
		tail := pb.ReadAt(int(pb.Size())-from, int64(from))
		out = wb(tail)
		if codec != 0 {
			plain := "-"
			if d, err := decompressWith(codec, tail[pre-from+4+34:]); err == nil {
				plain = wb(d)
			}
			op = fmt.Sprintf("pwset1 %d %d %s %s", pre, codec, recsArg(rs, false), plain)
		}
	})
	if res != "" {
		return op, res
	}
	return op, out
}

// pbufCase: a random sequence of operations on a real pageBuffer; sizes and offsets gather around multiples of the
// 64 KiB page size
func pbufCase(r *rand.Rand, steps int) (string, string) {
	const P = 65536
	near := func(limit int) int { // an offset in [0, limit] with a preference for page boundaries
		if limit <= 0 {
			return 0
		}
		switch r.Intn(4) {
		case 0:
			return r.Intn(limit + 1)
		case 1:
			return limit
		default:
			k := r.Intn(limit/P + 1)
			x := k*P + []int{-2, -1, 0, 0, 1, 2, 100}[r.Intn(7)]
			if x < 0 {
				x = 0
			}
			if x > limit {
				x = limit
			}
			return x
		}
	}
	pb := protocol.VerifNewPageBuffer()
	defer pb.Unref()
	var ops, outs []string
	res := guard2(func() {
		for st := 0; st < steps; st++ {
			size := int(pb.Size())
			switch k := r.Intn(10); {
			case k < 3 || size == 0: // Write
				l := []int{0, 1, 7, 100, 4096, P - 1, P, P + 1, 2*P + 3, 3 * P}[r.Intn(10)]
				sd := r.Intn(256)
				pb.Write(patternBytes(l, sd))
				ops = append(ops, fmt.Sprintf("w%d.%d", l, sd))
			case k == 3: // WriteAt inside the written part
				off := near(size)
				l := r.Intn(size - off + 1)
				if l > 3*P {
					l = 3 * P
				}
				if r.Intn(2) == 0 && l > 8 {
					l = 1 + r.Intn(8)
				}
				sd := r.Intn(256)
				pb.WriteAt(patternBytes(l, sd), int64(off))
				ops = append(ops, fmt.Sprintf("a%d.%d.%d", off, l, sd))
			case k < 6: // ReadAt
				off := near(size)
				n := near(size - off)
				ops = append(ops, fmt.Sprintf("r%d.%d", off, n))
				outs = append(outs, digestOf(pb.ReadAt(n, int64(off))))
			case k < 8: // scan
				b := near(size)
				e := b + near(size-b)
				ops = append(ops, fmt.Sprintf("s%d.%d", b, e))
				outs = append(outs, digestOf(pb.Scan(int64(b), int64(e))))
			case k == 8: // Truncate
				n := near(size)
				pb.Truncate(n)
				ops = append(ops, fmt.Sprintf("t%d", n))
			default: // ref [b,e) and read inside it
				b := near(size)
				e := b + near(size-b)
				off := near(e - b)
				n := near(e-b-off) + r.Intn(3)
				ref := pb.Ref(int64(b), int64(e))
				ops = append(ops, fmt.Sprintf("f%d.%d.%d.%d", b, e, off, n))
				outs = append(outs, digestOf(protocol.VerifRefReadAt(ref, n, int64(off))))
				ref.Close()
			}
		}
	})
	o := "-"
	if len(outs) > 0 {
		o = strings.Join(outs, ",")
	}
	if res != "" {
		o = res
	}
	return strings.Join(ops, ","), o
}

func guard2(f func()) (res string) {
	defer func() {
		if p := recover(); p != nil {
			res = strings.ReplaceAll(fmt.Sprintf("panic:%v", p), " ", "_")
		}
	}()
	f()
	return ""
}

// pageTrace: a sequential scenario (decode and hold key/value Bytes, release some, encode, decode again so that
// pooled pages are reused, release the rest) recorded by the page hooks of protocol/buffer.go.
type heldBytes struct {
	b    protocol.Bytes
	want []byte
}

type pageScenario struct {
	r   *rand.Rand
	hs  []heldBytes
	bad string
}

func (ps *pageScenario) release(k int) {
	for k > 0 && len(ps.hs) > 0 {
		i := ps.r.Intn(len(ps.hs))
		x := ps.hs[i]
		ps.hs = append(ps.hs[:i], ps.hs[i+1:]...)
		got, err := protocol.ReadAll(x.b)
		if err != nil || !bytes.Equal(got, x.want) {
			ps.bad = "held bytes changed"
		}
		x.b.Close()
		k--
	}
}

func (ps *pageScenario) run(steps int) {
	defer func() {
		if p := recover(); p != nil {
			ps.bad = strings.ReplaceAll(fmt.Sprintf("panic:%v", p), " ", "_")
		}
	}()
	r := ps.r
	for st := 0; st < steps; st++ {
		switch r.Intn(4) {
		case 0, 1: // decode a set and keep its keys / values
			rs := genRecs(r, 1+r.Intn(4), []int{0, 1, 2}[r.Intn(3)], false)
			version := int8(1 + r.Intn(2))
			set, err := produceProto(version, []int{0, 0, 1, 2}[r.Intn(4)], rs)
			if err != nil {
				ps.bad = "encode: " + err.Error()
				continue
			}
			var rset protocol.RecordSet
			if _, err := rset.ReadFrom(bufio.NewReader(bytes.NewReader(withSize(set)))); err != nil {
				ps.bad = "decode: " + err.Error()
				continue
			}
			for i := 0; ; i++ {
				rec, err := rset.Records.ReadRecord()
				if err != nil {
					break
				}
				if rec.Key != nil {
					ps.hs = append(ps.hs, heldBytes{rec.Key, rs[i].key})
				}
				if rec.Value != nil {
					ps.hs = append(ps.hs, heldBytes{rec.Value, rs[i].value})
				}
			}
		case 2:
			ps.release(1 + r.Intn(4))
		case 3: // encode only (page buffers of the writer, Truncate on the compressed v1 path)
			produceProto(int8(1+r.Intn(2)), r.Intn(5), genRecs(r, 1+r.Intn(3), r.Intn(3), false))
		}
	}
	ps.release(len(ps.hs))
}

func pageTrace(r *rand.Rand, steps int) (string, string) {
	ps := &pageScenario{r: r}
	protocol.VerifPagesStart()
	ps.run(steps)
	evs := protocol.VerifPagesStop()
	parts := make([]string, len(evs))
	for i, e := range evs {
		switch e.Kind {
		case "alloc":
			parts[i] = "a"
		case "reuse":
			parts[i] = fmt.Sprintf("r%d", e.Page)
		case "ref":
			parts[i] = fmt.Sprintf("f%d", e.Page)
		default:
			parts[i] = fmt.Sprintf("u%d", e.Page)
		}
	}
	tr := "-"
	if len(parts) > 0 {
		tr = strings.Join(parts, ",")
	}
	if ps.bad != "" {
		return tr, ps.bad
	}
	return tr, fmt.Sprintf("ok %d", len(parts))
}

// ---------------------------------------------------------------- main

func recsArg(rs []rec, nanos bool) string {
	parts := make([]string, len(rs))
	for i, x := range rs {
		t := x.ms
		if nanos {
			t = x.t.UnixNano()
		}
		parts[i] = fmt.Sprintf("%d,%s,%s,%s", t, wb(x.key), wb(x.value), wh(x.hdrs))
	}
	return strings.Join(parts, ";")
}

func givenCanon(rs []rec, offsets func(i int) int64, headers bool) string {
	xs := make([]string, len(rs))
	for i, x := range rs {
		h := x.hdrs
		if !headers {
			h = nil
		}
		xs[i] = canonRec(offsets(i), x.ms, x.key, x.value, h, false)
	}
	return canonList(xs)
}

func zFor(set []byte, version int, codec int) (string, bool) {
	if codec == 0 {
		return "", true
	}
	start := 61
	if version < 2 {
		start = 34
	}
	if len(set) < start {
		return "", false
	}
	plain, err := decompressWith(codec, set[start:])
	if err != nil {
		return "", false
	}
	return fmt.Sprintf(" z%d:%d:%s", start, len(set)-start, wb(plain)), true
}

// v1WithHeaders: the records of a message-format-1 case carry headers, which that format cannot hold (known finding
// C05-D32: they are dropped without an error)
var v1WithHeaders bool

func produceCase(r *rand.Rand, path string, version int, codec int, rs []rec, totalSmall bool) {
	var set []byte
	var err error
	func() {
		defer func() {
			if p := recover(); p != nil {
				err = fmt.Errorf("panic:%v", p)
			}
		}()
		switch path {
		case "proto":
			set, err = produceProto(int8(version), codec, rs)
		case "client":
			set, err = produceClient(map[int]int16{1: 2, 2: []int16{3, 7, 8}[r.Intn(3)]}[version], codec, rs)
		case "writer":
			set, err = produceWriter(map[int]int16{1: 2, 2: []int16{3, 7, 8}[r.Intn(3)]}[version], codec, rs)
		case "conn":
			pv := map[int]int16{1: 2, 2: []int16{3, 7}[r.Intn(2)]}[version]
			set, err = produceConn(pv, codec, rs)
		}
	}()
	tag := fmt.Sprintf("produce/%s/v%d/c%d/produced", path, version, codec)
	if v1WithHeaders {
		tag = fmt.Sprintf("produce/%s/v1hdr/c%d/produced", path, codec)
	}
	offs := func(i int) int64 { return int64(i) }
	if path == "conn" && version == 1 && codec == 0 {
		offs = func(int) int64 { return 0 } // Message.Offset is written as is; brokers assign offsets
	}
	want := givenCanon(rs, offs, version == 2 || v1WithHeaders)
	if v1WithHeaders {
		// message format 1 cannot carry headers: the only correct outcome is a refusal (C05-D32)
		if err != nil {
			if strings.Contains(err.Error(), "nbytes=") {
				emit("v1hdr "+path, "refused-but-"+strings.ReplaceAll(err.Error()[strings.Index(err.Error(), "nbytes="):], " ", "_"))
				return
			}
			emit("v1hdr "+path, "refused")
			return
		}
		emit("v1hdr "+path, "accepted")
	}
	if err != nil {
		emit(fmt.Sprintf("wire %s -", tag), "error:"+errClass(err)+" wanted "+want)
		return
	}
	z, ok := zFor(set, version, codec)
	if !ok {
		emit(fmt.Sprintf("wire %s %s", tag, wb(set)), "error:payload-not-decompressible wanted "+want)
		return
	}
	emit(fmt.Sprintf("wire %s %s%s", tag, wb(set), z), want)
	// byte-exact writer models (compressed: modulo the compressor's output, which is read off the bytes)
	if totalSmall && (path == "proto" || path == "conn") && !(codec == 0 && version == 2) {
		plain := ""
		if codec != 0 {
			start := map[int]int{1: 34, 2: 61}[version]
			if d, err := decompressWith(codec, set[start:]); err == nil {
				plain = wb(d)
			}
		}
		switch {
		case version == 1 && codec == 0 && path == "proto":
			emit(fmt.Sprintf("wmodel1 0 %s", recsArg(rs, false)), wb(set))
		case version == 1 && codec == 0:
			emit(fmt.Sprintf("lmodel1 %s", recsArg(rs, true)), wb(set))
		case version == 1 && path == "proto":
			emit(fmt.Sprintf("wmodel1c %d %s %s", codec, recsArg(rs, false), plain), wb(set))
		case version == 1:
			emit(fmt.Sprintf("lmodel1c %d %s %s", codec, recsArg(rs, true), plain), wb(set))
		case path == "proto":
			emit(fmt.Sprintf("wmodel2c %d 0 %s %s", codec, recsArg(rs, false), plain), wb(set))
		default:
			emit(fmt.Sprintf("lmodel2c %d %s %s", codec, recsArg(rs, true), plain), wb(set))
		}
	}
	if codec == 0 && version == 2 && totalSmall {
		if path == "proto" {
			emit(fmt.Sprintf("wmodel2 0 0 %s", recsArg(rs, false)), wb(set))
		}
		if path == "conn" {
			emit(fmt.Sprintf("lmodel2 %s", recsArg(rs, true)), wb(set))
		}
	}
}

func main() {
	defer out.Flush()
	r := gen.New()
	thorough := gen.Thorough()
	mode := "all"
	if len(os.Args) > 1 {
		mode = os.Args[1]
	}
	o, err := orc.Start()
	if err != nil {
		fmt.Fprintln(os.Stderr, "cannot start oracle:", err)
		os.Exit(2)
	}
	defer o.Close()

	if mode == "pagetrace" {
		// first page activity of the process: every page is seen from its allocation on
		steps := 60
		if thorough {
			steps = 400
		}
		evs, res := pageTrace(r, steps)
		emit("ptrace "+evs, res)
		return
	}
	if mode == "wrapkey" {
		// exploration (not part of the check): a compressed v1 wrapper that carries a KEY — the hypothesis `hkey` of
		// Props/C05.decoders_agree_content excludes it (brokers write wrappers with a null key)
		inner := ask(o, "encset m:1:0:0:1600000000000:6b31:7631 m:1:1:0:1600000000001:6b32:7632")
		if len(os.Args) > 3 && os.Args[3] == "empty" {
			inner = nil
		}
		comp := compressWith(1, inner)
		val := wb(comp)
		if len(os.Args) > 3 && os.Args[3] == "nullvalue" {
			val = "nil"
		}
		set := ask(o, fmt.Sprintf("encset m:1:11:1:1600000000001:%s:%s", os.Args[2], val))
		fmt.Println("client:", canonList(fetchClient(set, 10)))
		fmt.Println("conn:  ", canonList(fetchConn(set, 10, 12, 5)))
		return
	}
	if mode == "pages" {
		for i := 0; i < 3; i++ {
			emit(fmt.Sprintf("pages 6 6 %d", 30+i), pagesTest(r, 6, 6, 30+i))
		}
		return
	}
	if mode == "all" {
		emit("pages 3 3 6", pagesTest(r, 3, 3, 6))
	}
	if mode == "all" || mode == "pbuf" {
		n := 25
		if thorough {
			n = 150
		}
		for i := 0; i < n; i++ {
			ops, res := pbufCase(r, 4+r.Intn(14))
			emit("pbuf "+ops, res)
		}
		// the v2 writer's placeholders and back-patches laid across the page boundary: every start offset from
		// 70 bytes before it to 2 after (so that each of the six WriteAt calls is split at least once), and far inside
		m := 8
		if thorough {
			m = 73
		}
		for i := 0; i < m; i++ {
			pre := 65536 - 70 + i
			if !thorough {
				pre = 65536 - 70 + r.Intn(73)
			}
			ops, res := pagedSetCase(pre, 0, genRecs(r, 1+r.Intn(3), 0, true))
			emit(ops, res)
			if i%2 == 0 || thorough {
				ops, res = pagedSetCase(pre, 1+r.Intn(4), genRecs(r, 1+r.Intn(3), 0, true))
				emit(ops, res)
			}
		}
		ops, res := pagedSetCase(r.Intn(50), 0, genRecs(r, 1+r.Intn(3), 0, true))
		emit(ops, res)
		// the v1 writer: per-message back-patches at +8/+12 across the boundary; compressed: scan, Truncate, wrapper
		m1 := 6
		if thorough {
			m1 = 40
		}
		for i := 0; i < m1; i++ {
			pre := 65536 - 40 + r.Intn(44)
			ops, res := pagedSetV1Case(pre, []int{0, 0, 1, 2, 3, 4}[i%6], genRecs(r, 1+r.Intn(3), 0, false))
			emit(ops, res)
		}
	}

	// --- crc validation
	if mode == "all" || mode == "crc" {
		emit("crc ieee 313233343536373839", strconv.FormatUint(uint64(crc32.ChecksumIEEE([]byte("123456789"))), 10))
		emit("crc c 313233343536373839", strconv.FormatUint(uint64(crc32.Checksum([]byte("123456789"), crc32.MakeTable(crc32.Castagnoli))), 10))
		for i := 0; i < 40; i++ {
			b := gen.Bytes(r, r.Intn(200))
			emit("crc ieee "+gen.Hex(b), strconv.FormatUint(uint64(crc32.ChecksumIEEE(b)), 10))
			emit("crc c "+gen.Hex(b), strconv.FormatUint(uint64(crc32.Checksum(b, crc32.MakeTable(crc32.Castagnoli))), 10))
		}
	}

	// --- produce direction
	if mode == "all" || mode == "produce" {
		rounds := 3
		if thorough {
			rounds = 12
		}
		for _, path := range []string{"proto", "conn"} {
			for _, version := range []int{1, 2} {
				for codec := 0; codec <= 4; codec++ {
					produceCase(r, path, version, codec, d6Recs(), true)
					for k := 0; k < rounds; k++ {
						class := k % 3
						if class == 2 && !thorough && (codec != 0 && codec != 2) {
							class = 1
						}
						n := 1 + r.Intn(6)
						produceCase(r, path, version, codec, genRecs(r, n, class, version == 2), class == 0)
					}
				}
			}
		}
		for codec := 0; codec <= 4; codec++ {
			produceCase(r, "client", 2, codec, genRecs(r, 1+r.Intn(5), 0, true), true)
			produceCase(r, "client", 1, codec, genRecs(r, 1+r.Intn(5), 0, false), true)
			produceCase(r, "client", 2, codec, d6Recs(), true)
		}
		// kafka.Writer path, and on every path one batch with every adjacent order of null/empty/non-empty shapes
		for _, version := range []int{1, 2} {
			for codec := 0; codec <= 4; codec++ {
				produceCase(r, "writer", version, codec, d6Recs(), true)
				for k := 0; k < rounds; k++ {
					produceCase(r, "writer", version, codec, genRecs(r, 1+r.Intn(6), k%2, version == 2), k%2 == 0)
				}
				for _, path := range []string{"proto", "client", "writer", "conn"} {
					produceCase(r, path, version, codec, shapeRecs(r, version == 2), false)
				}
			}
		}
		// message format 1 cannot carry headers: one case per path with headers given (known finding C05-D32)
		v1WithHeaders = true
		for _, path := range []string{"proto", "client", "writer", "conn"} {
			hs := genRecs(r, 2, 0, true)
			hs[0].hdrs = []protocol.Header{{Key: "h", Value: []byte("v")}}
			produceCase(r, path, 1, 0, hs, false)
		}
		v1WithHeaders = false
		// many small records in one batch (offset deltas and varint widths beyond one byte)
		produceCase(r, "proto", 2, 0, genRecs(r, 150, 0, false), false)
		produceCase(r, "conn", 2, 0, genRecs(r, 150, 0, false), false)
		produceCase(r, "conn", 1, 2, genRecs(r, 70, 0, false), false)
	}

	// --- fetch direction
	if mode == "all" || mode == "fetch" {
		cases := 60
		if thorough {
			cases = 400
		}
		extra := 6
		if thorough {
			extra = 30
		}
		for i := 0; i < cases+extra; i++ {
			class := 0
			switch {
			case i%10 == 9:
				class = 2
			case i%3 == 1:
				class = 1
			}
			base := []int64{0, 1, 100, 1 << 33}[r.Intn(4)]
			plan := genPlan(r, class, thorough)
			if i >= cases {
				// multi-block family (seeded C05-m11): ONE compressed entry whose decompressed content spans several
				// 32 KiB snappy/xerial blocks and 64 KiB pages, keys and values of a few KB up to 20 KB so that they
				// straddle the block boundaries; every codec, v1 wrapper and v2 batch alternately
				n := 5 + r.Intn(6)
				rs := genRecs(r, n, 0, true)
				for j := range rs {
					rs[j].key = gen.Bytes(r, []int{0, 3, 1000, 4097}[r.Intn(4)])
					rs[j].value = gen.Bytes(r, []int{8191, 16385, 20000, 12000, 30000}[r.Intn(5)])
					if r.Intn(3) == 0 {
						rs[j].value = compressible(r, 20000+r.Intn(20000))
					}
				}
				k := "w1"
				if i%2 == 1 {
					k = "b2"
				}
				plan = []entryPlan{{kind: k, codec: 1 + (i-cases)%4, recs: rs, extra: extraBits(r, k)}}
				if i%3 == 0 {
					plan[0].codec = 2 // snappy more often: the only first-party framing
				}
			}
			bt := build(o, r, base, plan)
			desc := strings.Join(bt.desc, "+")
			zs := ""
			if len(bt.zs) > 0 {
				zs = " " + strings.Join(bt.zs, " ")
			}
			hexs := wb(bt.bytes)
			emit(fmt.Sprintf("wire fetch/recordset/%s/hidectl %s%s", desc, hexs, zs), canonList(fetchRecordSet(bt.bytes, i%3)))
			emit(fmt.Sprintf("wire fetch/client/%s/hidectl %s%s", desc, hexs, zs), canonList(fetchClient(bt.bytes, base)))
			{
				// control batches too: the Conn path passes over them since fix 314fa1c
				fv := []int16{2, 5, 10}[i%3]
				emit(fmt.Sprintf("wire fetch/conn-v%d/%s/hidectl,exact %s%s", fv, desc, hexs, zs), canonList(fetchConn(bt.bytes, base, bt.next, fv)))
			}
			// corrupt one entry: nothing of it may be surfaced by the Client.Fetch path
			if i%2 == 0 {
				k := r.Intn(len(bt.crcAt))
				bad := append([]byte(nil), bt.bytes...)
				bad[bt.crcAt[k]] ^= byte(1 << uint(r.Intn(8)))
				emit(fmt.Sprintf("wire fetch/client-badcrc@%d/%s/hidectl,reject %s%s", k, desc, wb(bad), zs), canonList(fetchClient(bad, base)))
			}
		}
	}
}
