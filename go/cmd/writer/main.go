// Driver for the Writer properties C01 / C07 / C08 (shared; C09-writer reuses the events).
//
// Runs the REAL kafka.Writer of /repo (built with -tags verif) against a message-level fake
// RoundTripper (no sockets) that keeps per-partition logs and a journal of produce requests, injects
// scripted faults (temporary / permanent Kafka error codes, transport errors before apply and after
// apply = lost acknowledgement, delays) and can HOLD calls to force schedules.  The hook events of
// writer.go and the fake broker's decisions (Br.Produce) are recorded in one totally ordered log.
//
// Output, one line per scenario:
//
//	wtrace <cfg> | <calls> | <events>\t<observations>
//
// cfg          = name bs bb maxAttempts async completion topic
// calls        = c<k> <ptr-id> <caller> <seq-in-caller> key:size:topic:part,...   (';'-separated)
// events       = Kind arg… (';'-separated, recorder order; object ids renamed to creation order)
// observations = ret c<k> <code>;… | log topic/part key,…;… | cb key code;… | unsent n
//
// The Lean oracle replays the events through Model/Writer.step (trace acceptance), predicts the
// observations, and evaluates the property monitors on the journal + observations.
package main

import (
	"bufio"
	"context"
	"errors"
	"fmt"
	"io"
	"math/rand"
	"net"
	"os"
	"sort"
	"strconv"
	"strings"
	"sync"
	"sync/atomic"
	"syscall"
	"time"

	kafka "github.com/segmentio/kafka-go"
	meta "github.com/segmentio/kafka-go/protocol/metadata"
	"github.com/segmentio/kafka-go/protocol/produce"

	"kvharness/internal/gen"
)

// ---------------------------------------------------------------- fake broker (message level)

type fault struct {
	kind  string // ok | lostack | drop | kerr | other | deadline | notopic | nopart
	code  int16
	delay time.Duration
	gate  string // wait for this gate before deciding
	msg   bool   // error response carries an error message (makeError wraps the code)
}

type tpKey struct {
	topic string
	part  int
}

type fakeRT struct {
	mu        sync.Mutex
	nparts    map[string]int
	logs      map[tpKey][]string
	faults    map[tpKey][]fault
	nmeta     int
	metaGat   map[int]string // nth metadata call (1-based) waits for gate
	gates     map[string]chan struct{}
	reached   map[string]chan struct{} // closed when a call starts waiting on the gate
	attempted map[string]bool
	shapes    map[string]bool // "id:shape" of every record that reached the broker
	dflt      fault           // the broker's decision once a partition's script is used up (zero: ok)
	multi     int             // produce requests that were not exactly one topic / one partition, or whose acks / compression attribute
	// differ from the Writer's configuration (options must be passed through unchanged)
	wantAcks  int16
	wantAttrs int16
}

func newFake() *fakeRT {
	return &fakeRT{nparts: map[string]int{}, logs: map[tpKey][]string{}, faults: map[tpKey][]fault{},
		metaGat: map[int]string{}, gates: map[string]chan struct{}{}, reached: map[string]chan struct{}{}, attempted: map[string]bool{}, shapes: map[string]bool{}}
}

func (f *fakeRT) gate(name string) (g, r chan struct{}) {
	f.mu.Lock()
	defer f.mu.Unlock()
	if f.gates[name] == nil {
		f.gates[name] = make(chan struct{})
		f.reached[name] = make(chan struct{})
	}
	return f.gates[name], f.reached[name]
}

func (f *fakeRT) waitGate(name string) {
	g, r := f.gate(name)
	select {
	case <-r:
	default:
		close(r)
	}
	select {
	case <-g:
	case <-time.After(10 * time.Second): // never deadlock the driver
	}
}

func (f *fakeRT) open(name string) {
	g, _ := f.gate(name)
	select {
	case <-g:
	default:
		close(g)
	}
}

func (f *fakeRT) waitReached(name string) bool {
	_, r := f.gate(name)
	select {
	case <-r:
		return true
	case <-time.After(5 * time.Second):
		return false
	}
}

func (f *fakeRT) RoundTrip(ctx context.Context, addr net.Addr, req kafka.Request) (kafka.Response, error) {
	switch r := req.(type) {
	case *meta.Request:
		f.mu.Lock()
		f.nmeta++
		g := f.metaGat[f.nmeta]
		f.mu.Unlock()
		if g != "" {
			f.waitGate(g)
		}
		res := &meta.Response{Brokers: []meta.ResponseBroker{{NodeID: 1, Host: "h", Port: 9092}}}
		for _, name := range r.TopicNames {
			n, ok := f.nparts[name]
			if !ok {
				code := 3 // UnknownTopicOrPartition; topics named nope<code> fail with that code
				if strings.HasPrefix(name, "nope") {
					if c, err := strconv.Atoi(name[4:]); err == nil {
						code = c
					}
				}
				res.Topics = append(res.Topics, meta.ResponseTopic{Name: name, ErrorCode: int16(code)})
				continue
			}
			t := meta.ResponseTopic{Name: name}
			for i := 0; i < n; i++ {
				t.Partitions = append(t.Partitions, meta.ResponsePartition{PartitionIndex: int32(i), LeaderID: 1})
			}
			res.Topics = append(res.Topics, t)
		}
		return res, nil
	case *produce.Request:
		return f.produce(r)
	}
	return nil, fmt.Errorf("fake: unexpected request %T", req)
}

func (f *fakeRT) produce(r *produce.Request) (kafka.Response, error) {
	if len(r.Topics) != 1 || len(r.Topics[0].Partitions) != 1 {
		f.mu.Lock()
		f.multi++
		f.mu.Unlock()
		return nil, errors.New("fake: produce request must carry one topic-partition")
	}
	topic := r.Topics[0].Topic
	part := int(r.Topics[0].Partitions[0].Partition)
	if r.Acks != f.wantAcks || int16(r.Topics[0].Partitions[0].RecordSet.Attributes)&7 != f.wantAttrs {
		f.mu.Lock()
		f.multi++
		f.mu.Unlock()
	}
	keys, shapes := readRecs(r.Topics[0].Partitions[0].RecordSet.Records)
	tp := tpKey{topic, part}
	f.mu.Lock()
	for i, k := range keys {
		f.shapes[k+":"+shapes[i]] = true
	}
	var ft fault
	if q := f.faults[tp]; len(q) > 0 {
		ft = q[0]
		f.faults[tp] = q[1:]
	} else if f.dflt.kind != "" {
		ft = f.dflt
	} else {
		ft = fault{kind: "ok"}
	}
	f.mu.Unlock()
	if ft.gate != "" {
		f.waitGate(ft.gate)
	}
	if ft.delay > 0 {
		time.Sleep(ft.delay)
	}
	ks := strings.Join(keys, ",")
	if ks == "" {
		ks = "-"
	}
	f.mu.Lock()
	defer f.mu.Unlock()
	for _, k := range keys {
		f.attempted[k] = true
	}
	base := int64(len(f.logs[tp]))
	okResp := &produce.Response{Topics: []produce.ResponseTopic{{Topic: topic, Partitions: []produce.ResponsePartition{{Partition: int32(part), BaseOffset: base}}}}}
	switch ft.kind {
	case "ok":
		f.logs[tp] = append(f.logs[tp], keys...)
		kafka.VerifWriterEmit("Br.Produce", topic, part, ks, "acked")
		return okResp, nil
	case "lostack":
		f.logs[tp] = append(f.logs[tp], keys...)
		kafka.VerifWriterEmit("Br.Produce", topic, part, ks, "lost1")
		return nil, transient(int(ft.code))
	case "notopic", "nopart":
		// applied, but the response lacks the topic / the partition entry: (*Client).Produce reports ErrNoTopic /
		// ErrNoPartition, a non-retriable error — for the Writer an acknowledgement lost for good
		f.logs[tp] = append(f.logs[tp], keys...)
		kafka.VerifWriterEmit("Br.Produce", topic, part, ks, "lost1")
		if ft.kind == "notopic" {
			return &produce.Response{}, nil
		}
		return &produce.Response{Topics: []produce.ResponseTopic{{Topic: topic}}}, nil
	case "drop":
		kafka.VerifWriterEmit("Br.Produce", topic, part, ks, "lost0")
		return nil, transient(int(ft.code))
	case "deadline":
		kafka.VerifWriterEmit("Br.Produce", topic, part, ks, "lost0")
		return nil, fmt.Errorf("fake: %w", context.DeadlineExceeded)
	case "other":
		kafka.VerifWriterEmit("Br.Produce", topic, part, ks, "lost0")
		return nil, errors.New("fake: broken pipe dream")
	case "kerr":
		kafka.VerifWriterEmit("Br.Produce", topic, part, ks, "k"+strconv.Itoa(int(ft.code)))
		em := ""
		if ft.msg {
			em = "injected by the fake broker"
		}
		return &produce.Response{Topics: []produce.ResponseTopic{{Topic: topic, Partitions: []produce.ResponsePartition{{Partition: int32(part), ErrorCode: ft.code, ErrorMessage: em}}}}}, nil
	}
	panic("fake: bad fault " + ft.kind)
}

func transient(i int) error {
	switch i % 4 {
	case 0:
		return fmt.Errorf("fake: %w", io.ErrUnexpectedEOF)
	case 1:
		return &net.OpError{Op: "read", Net: "tcp", Err: syscall.ECONNRESET}
	case 2:
		return &net.OpError{Op: "write", Net: "tcp", Err: syscall.EPIPE}
	}
	return &net.OpError{Op: "dial", Net: "tcp", Err: syscall.ECONNREFUSED}
}

// ---------------------------------------------------------------- scenarios

type msgSpec struct {
	key   string
	size  int    // Message.totalSize measure: 23 + len(key) + len(value) (+ header bytes)
	topic string // message-level topic ("" = none)
	part  int
	hdr   bool
	// shape: how Key and Value are given, two characters; "" = "kv".  First: k = Key holds the id, n = Key nil,
	// e = Key empty but not nil (the id then stands at the start of Value).  Second: v = Value has bytes, n = Value nil
	// (a tombstone), e = Value empty but not nil.
	shape string
}

func (m msgSpec) shp() string {
	if m.shape == "" {
		n := m.size - 23 - len(m.key)
		if m.hdr {
			n -= 4
		}
		if n == 0 { // no room for value bytes: message() then gives an empty, non-nil Value
			return "ke"
		}
		return "kv"
	}
	return m.shape
}

type callSpec struct {
	id     int
	msgs   []msgSpec
	cancel bool // call with a context cancelled shortly after submission
	// cancelOn (with cancel): "" = at a random moment within 1.5 ms; "pre" = the context is cancelled before the call;
	// any other value = when the produce request held at the gate of that name has reached the broker
	cancelOn string
}

type scenario struct {
	name       string
	bs         int
	bb         int64
	ma         int
	async      bool
	compl      bool
	wtopic     string
	timeout    time.Duration
	nparts     map[string]int
	callers    [][]callSpec
	faults     map[tpKey][]fault
	closeAt    time.Duration // <0: close after everything was flushed
	special    string
	jitter     bool
	emptyCalls bool
	jitterUs   int
	wire       int // > 0: run over the real kafka.Transport against this many byte-level brokers
	moves      []leaderMove
	dflt       fault                    // the fake broker's decision after the scripted ones (zero value: ok)
	viaNew     bool                     // the Writer is built by the deprecated constructor NewWriter(WriterConfig)
	defBal     bool                     // Writer.Balancer left unset: the default round-robin (one goroutine: message j of the run goes to partition j mod n)
	writeTO    time.Duration            // > 0: Writer.WriteTimeout
	twoClus    bool                     // wire: a second cluster and a second Writer share the Transport (pool per address)
	codec      int                      // > 0: Writer.Compression is this codec (1 gzip, 2 snappy, 3 lz4, 4 zstd) instead of the derived one
	prodMax    int16                    // wire: brokers advertise Produce only up to this version (0 = whatever the cluster model advertises)
	stallAt    int                      // wire: the broker stops reading in the middle of the n-th produce request to arrive (special "stallwrite")
	linger     time.Duration            // > 0: timed run — the trace carries clock ticks and the model's linger bound (BatchTimeout + slack) applies
	trickle    time.Duration            // > 0 (with one caller): pause between the calls of a caller
	sinkDelay  map[string]time.Duration // event key ("PW.NewBatch", "PW.Detach:timer", "Q.Get:batch", "B.TimerFire") -> stall inside that critical section
}

// Kafka error codes for produce responses, every class: all codes error.go's Temporary() lists; permanent ones
// including the one negative code (-1 UNKNOWN_SERVER_ERROR), the neighbours of 0, codes the library has no name for
// (9999) and the largest int16.
var temporaryCodes = []int16{2, 3, 5, 6, 7, 13, 14, 15, 16, 19, 20, 41, 56, 70, 71, 72, 74, 75, 78, 80, 83, 84, 85, 86, 88, 89, 100, 103, 106}
var permanentCodes = []int16{-1, 1, 4, 10, 17, 18, 29, 87, 119, 9999, 32767}

type builder struct {
	r      *rand.Rand
	nextID int
	nextC  int
}

// mkMsg builds a message spec of exactly `size` bytes (size >= 23 + len(key) [+5 with header]).
func (b *builder) mkMsg(size int, topic string, part int, hdr bool) msgSpec {
	b.nextID++
	return msgSpec{key: "m" + strconv.Itoa(b.nextID), size: size, topic: topic, part: part, hdr: hdr}
}

func (m msgSpec) message() kafka.Message {
	sh := m.shp()
	msg := kafka.Message{Topic: m.topic}
	klen := 0
	switch sh[0] {
	case 'k':
		msg.Key = []byte(m.key)
		klen = len(m.key)
	case 'e':
		msg.Key = []byte{}
	}
	n := m.size - 23 - klen
	if m.hdr {
		// one header "h"="v": array len varint(1)=1 replaces the 1 byte of the empty array; + (1+1) + (1+1)
		n -= 4
		msg.Headers = []kafka.Header{{Key: "h", Value: []byte("v")}}
	}
	if n < 0 {
		panic("message spec too small")
	}
	switch sh[1] {
	case 'v':
		msg.Value = make([]byte, n)
		if sh[0] != 'k' { // the id travels in the value
			if n < len(m.key)+1 {
				panic("message spec too small for an id in the value")
			}
			copy(msg.Value, m.key)
		}
	case 'n':
		if n != 0 || sh[0] != 'k' {
			panic("bad spec: nil value needs size = 23 + len(key) and a key")
		}
	case 'e':
		if n != 0 || sh[0] != 'k' {
			panic("bad spec: empty value needs size = 23 + len(key) and a key")
		}
		msg.Value = []byte{}
	}
	return msg
}

// msgID recovers the id of a message / record from its key, or from the start of its value when the key is absent.
func msgID(key, value []byte) string {
	if len(key) > 0 {
		return string(key)
	}
	for i, c := range value {
		if c == 0 {
			return string(value[:i])
		}
	}
	return string(value)
}

// shaped gives a message spec the given shape, adjusting the size where the shape dictates it
func (b *builder) shaped(m msgSpec, shape string) msgSpec {
	m.shape = shape
	m.hdr = false
	switch {
	case shape[1] == 'n' || shape[1] == 'e':
		m.size = 23 + len(m.key)
	case shape[0] != 'k' && m.size < 23+len(m.key)+1:
		m.size = 23 + len(m.key) + 1
	}
	return m
}

// readRecs drains a record reader as the broker side: ids and shapes (null / empty / present key and value) of the records
func readRecs(rr kafka.RecordReader) (ids, shapes []string) {
	for rr != nil {
		rec, err := rr.ReadRecord()
		if err != nil {
			break
		}
		var k, v []byte
		sh := []byte("nn")
		if rec.Key != nil {
			k, _ = io.ReadAll(rec.Key)
			sh[0] = 'e'
			if len(k) > 0 {
				sh[0] = 'k'
			}
		}
		if rec.Value != nil {
			v, _ = io.ReadAll(rec.Value)
			sh[1] = 'e'
			if len(v) > 0 {
				sh[1] = 'v'
			}
		}
		ids = append(ids, msgID(k, v))
		shapes = append(shapes, string(sh))
	}
	return
}

func (b *builder) random(idx int, thorough bool) *scenario {
	r := b.r
	sc := &scenario{name: "rnd" + strconv.Itoa(idx), nparts: map[string]int{}, faults: map[tpKey][]fault{}, closeAt: -1}
	u := 40 + r.Intn(30) // unit message size
	sc.bs = []int{1, 2, 2, 3, 3, 4, 5, 100}[r.Intn(8)]
	k := 1 + r.Intn(4)
	sc.bb = int64(k*u + []int{-1, 0, 0, 0, 1, 7}[r.Intn(6)])
	if r.Intn(4) == 0 {
		sc.bb = 1 << 20
	}
	sc.ma = 1 + r.Intn(3)
	if r.Intn(6) == 0 {
		sc.ma = 4
	}
	sc.async = r.Intn(3) == 0
	sc.compl = sc.async || r.Intn(3) == 0
	sc.timeout = []time.Duration{2, 3, 5, 8}[r.Intn(4)] * time.Millisecond
	sc.jitter = r.Intn(2) == 0
	sc.emptyCalls = r.Intn(8) == 0
	topics := []string{"t"}
	if r.Intn(3) == 0 {
		sc.wtopic = ""
		topics = []string{"a", "b"}[:1+r.Intn(2)]
	} else {
		sc.wtopic = "t"
		sc.nparts["u"] = 1 + r.Intn(2) // exists on the cluster but is never a legal target of this writer
	}
	for _, t := range topics {
		sc.nparts[t] = 1 + r.Intn(3)
	}
	ncallers := 1 + r.Intn(4)
	if thorough && r.Intn(4) == 0 {
		ncallers += r.Intn(5)
	}
	for c := 0; c < ncallers; c++ {
		var calls []callSpec
		ncalls := 1 + r.Intn(3)
		for j := 0; j < ncalls; j++ {
			b.nextC++
			cs := callSpec{id: b.nextC}
			nm := 1 + r.Intn(5)
			if r.Intn(8) == 0 {
				nm += r.Intn(8)
			}
			for i := 0; i < nm; i++ {
				size := u
				switch r.Intn(10) {
				case 0:
					size = u + 1
				case 1:
					size = u - 1
				case 2:
					size = 2 * u
				case 3:
					size = 30 + r.Intn(3*u)
				}
				if int64(size) > sc.bb {
					size = int(sc.bb) // exactly the limit: accepted
				}
				if r.Intn(60) == 0 {
					size = int(sc.bb) + 1 + r.Intn(3) // too large: the whole call must be rejected
				}
				if size < 34 {
					size = 34
				}
				topic := ""
				tname := topics[r.Intn(len(topics))]
				if sc.wtopic == "" {
					topic = tname
				}
				if sc.wtopic == "" && r.Intn(90) == 0 {
					topic = []string{"nope3", "nope-1", "nope9999", "nope5"}[r.Intn(4)] // the metadata lookup fails with that code, nothing of the call is sent
				}
				if r.Intn(80) == 0 { // topic conflict / missing topic
					if sc.wtopic == "" {
						topic = ""
					} else {
						// message-level topic besides the writer-level one: an unknown topic, the writer's own, or another existing one
						topic = []string{"zz", "t", "u"}[r.Intn(3)]
					}
				}
				part := r.Intn(sc.nparts[tname])
				ms := b.mkMsg(size, topic, part, r.Intn(12) == 0)
				if int64(size) <= sc.bb { // (an oversize message keeps its size)
					switch x := r.Intn(40); {
					case x < 4:
						ms = b.shaped(ms, "kn") // tombstone
					case x < 6:
						ms = b.shaped(ms, "ke")
					case x < 8:
						ms = b.shaped(ms, "nv")
					case x < 9:
						ms = b.shaped(ms, "ev")
					}
					if int64(ms.size) > sc.bb {
						ms.shape, ms.size = "", size
					}
				}
				cs.msgs = append(cs.msgs, ms)
			}
			if !sc.async && r.Intn(25) == 0 {
				cs.cancel = true
			}
			calls = append(calls, cs)
		}
		sc.callers = append(sc.callers, calls)
	}
	// faults
	if r.Intn(3) != 0 {
		for t, n := range sc.nparts {
			for p := 0; p < n; p++ {
				var q []fault
				nf := r.Intn(8)
				for i := 0; i < nf; i++ {
					var ft fault
					switch x := r.Intn(20); {
					case x < 8:
						ft.kind = "ok"
					case x < 11:
						ft = fault{kind: "lostack", code: int16(r.Intn(4))}
					case x < 13:
						ft = fault{kind: "drop", code: int16(r.Intn(4))}
					case x < 16:
						ft = fault{kind: "kerr", code: temporaryCodes[r.Intn(len(temporaryCodes))]}
					case x < 18:
						ft = fault{kind: "kerr", code: permanentCodes[r.Intn(len(permanentCodes))]}
					case x < 19:
						ft.kind = "other"
					default:
						ft.kind = []string{"deadline", "notopic", "nopart"}[r.Intn(3)]
					}
					if r.Intn(4) == 0 {
						ft.delay = time.Duration(r.Intn(4000)) * time.Microsecond
					}
					ft.msg = r.Intn(3) == 0
					q = append(q, ft)
				}
				sc.faults[tpKey{t, p}] = q
			}
		}
	}
	if r.Intn(6) == 0 {
		sc.closeAt = time.Duration(r.Intn(6000)) * time.Microsecond
	}
	return sc
}

// closeWindow: one goroutine, successive Async calls m1 then m2 to one partition; m1's produce is held, the
// second call is held inside its metadata lookup (after enter()), Close runs, then both are released.
// On the fixed code the late call is rejected with io.ErrClosedPipe; in D1's window it created a second
// partition writer (two live senders for one partition).
func (b *builder) closeWindow(async bool) *scenario {
	sc := &scenario{name: "closewin", bs: 1, bb: 1 << 20, ma: 2, async: async, compl: true, wtopic: "t",
		timeout: 5 * time.Millisecond, nparts: map[string]int{"t": 1}, faults: map[tpKey][]fault{}, closeAt: -1, special: "closewin"}
	b.nextC++
	c1 := callSpec{id: b.nextC, msgs: []msgSpec{b.mkMsg(50, "", 0, false)}}
	b.nextC++
	c2 := callSpec{id: b.nextC, msgs: []msgSpec{b.mkMsg(50, "", 0, false)}}
	sc.callers = [][]callSpec{{c1, c2}}
	sc.faults[tpKey{"t", 0}] = []fault{{kind: "lostack", gate: "p1"}, {kind: "ok"}, {kind: "ok"}}
	return sc
}

// holdRetry: batches of one message; the first batch's first attempt is held while the later batches queue
// up, then it loses its acknowledgement and is retried: copies of batch 1 must still precede batch 2.
func (b *builder) holdRetry(n int, first string) *scenario {
	sc := &scenario{name: "holdretry", bs: 1, bb: 1 << 20, ma: 3, async: true, compl: true, wtopic: "t",
		timeout: 2 * time.Millisecond, nparts: map[string]int{"t": 1}, faults: map[tpKey][]fault{}, closeAt: -1, special: "holdretry"}
	var calls []callSpec
	for i := 0; i < n; i++ {
		b.nextC++
		calls = append(calls, callSpec{id: b.nextC, msgs: []msgSpec{b.mkMsg(45, "", 0, false)}})
	}
	sc.callers = [][]callSpec{calls}
	sc.faults[tpKey{"t", 0}] = []fault{{kind: first, gate: "p1", code: 5}, {kind: "lostack", code: 1}, {kind: "ok"}}
	return sc
}

// ctxHold: a synchronous caller whose first call is cancelled while its first batch is in flight (the produce request
// is held at the broker; variant "pre": the context is cancelled before the call), then writes again to the same
// partition; the held attempt then ends as scripted (ack, lost ack, retriable / permanent code, dropped).
// WriteMessages must return ctx.Err() without withdrawing anything: every message of the cancelled call still gets
// produced (`unsent` counts them), in order before the next call's messages, with the scripted completion.
func (b *builder) ctxHold(i int) *scenario {
	r := b.r
	sc := &scenario{name: "ctxhold" + strconv.Itoa(i), bs: 1 + i%3, bb: 1 << 20, ma: 2 + i%2, async: false, compl: i%2 == 0, wtopic: "t",
		timeout: 2 * time.Millisecond, nparts: map[string]int{"t": 1 + i%2}, faults: map[tpKey][]fault{}, closeAt: -1, special: "ctxhold"}
	b.nextC++
	c1 := callSpec{id: b.nextC, cancel: true, cancelOn: "p1"}
	if i%4 == 3 {
		c1.cancelOn = "pre"
	}
	c1.msgs = append(c1.msgs, b.mkMsg(45, "", 0, false))
	for k := 0; k < r.Intn(4); k++ {
		c1.msgs = append(c1.msgs, b.mkMsg(40+r.Intn(10), "", r.Intn(sc.nparts["t"]), false))
	}
	b.nextC++
	c2 := callSpec{id: b.nextC}
	for k := 0; k < 1+r.Intn(3); k++ {
		c2.msgs = append(c2.msgs, b.mkMsg(40+r.Intn(10), "", 0, false))
	}
	sc.callers = [][]callSpec{{c1, c2}}
	if i%5 == 4 { // a second goroutine writing to the same partition meanwhile
		b.nextC++
		sc.callers = append(sc.callers, []callSpec{{id: b.nextC, msgs: []msgSpec{b.mkMsg(44, "", 0, false), b.mkMsg(44, "", 0, false)}}})
	}
	first := []fault{{kind: "ok"}, {kind: "lostack", code: 1}, {kind: "kerr", code: 6}, {kind: "kerr", code: 10}, {kind: "drop", code: 2}, {kind: "lostack", code: 0}}[i%6]
	first.gate = "p1"
	sc.faults[tpKey{"t", 0}] = []fault{first, {kind: "ok"}, {kind: "ok"}}
	return sc
}

// defaults: BatchSize, BatchBytes and MaxAttempts left unset (0): the limits are the documented defaults 100 /
// 1048576 / 10.  A message larger than 1 MiB must be rejected up front (nothing of its call is sent), a message of
// exactly 1 MiB goes out alone, two messages of 0.6 MiB go out in two requests, 101 small messages in 100 + 1, and
// the tenth attempt of a batch still happens after nine retriable failures.
func (b *builder) defaults(i int) *scenario {
	r := b.r
	sc := &scenario{name: "defaults" + strconv.Itoa(i), bs: 0, bb: 0, ma: 0, async: i%3 == 2, compl: i%2 == 0, wtopic: "t",
		timeout: 2 * time.Millisecond, nparts: map[string]int{"t": 1 + i%2}, faults: map[tpKey][]fault{}, closeAt: -1}
	const mib = 1048576
	var calls []callSpec
	add := func(ms ...msgSpec) {
		b.nextC++
		calls = append(calls, callSpec{id: b.nextC, msgs: ms})
	}
	switch i % 4 {
	case 0: // oversize in the middle of a call
		add(b.mkMsg(50, "", 0, false), b.mkMsg(mib+1+r.Intn(5000), "", 0, false), b.mkMsg(50, "", 0, false))
		add(b.mkMsg(60, "", 0, false))
	case 1: // exactly the limit, then two that do not fit together
		add(b.mkMsg(mib, "", 0, false))
		add(b.mkMsg(600000, "", 0, false), b.mkMsg(600000, "", 0, false), b.mkMsg(40, "", 0, false))
	case 2: // default BatchSize: 100 + 1
		var ms []msgSpec
		for k := 0; k < 101+r.Intn(30); k++ {
			ms = append(ms, b.mkMsg(40+r.Intn(4), "", 0, false))
		}
		add(ms...)
		add(b.mkMsg(mib+1, "", 0, false))
	case 3: // default MaxAttempts: nine retriable failures, the tenth attempt succeeds; then ten failures
		add(b.mkMsg(45, "", 0, false))
		add(b.mkMsg(45, "", 0, false))
		var script []fault
		for k := 0; k < 9; k++ {
			script = append(script, fault{kind: "kerr", code: temporaryCodes[r.Intn(len(temporaryCodes))]})
		}
		script = append(script, fault{kind: "ok"})
		for k := 0; k < 10; k++ {
			script = append(script, fault{kind: "kerr", code: 6})
		}
		script = append(script, fault{kind: "ok"})
		sc.faults[tpKey{"t", 0}] = script
	}
	sc.callers = [][]callSpec{calls}
	return sc
}

// trickle: one goroutine keeps appending single messages to one partition at intervals well below BatchTimeout, for
// many BatchTimeouts, with a BatchSize that is never reached: every batch must be closed BatchTimeout after it was
// OPENED although messages keep arriving.  Timed run: the trace carries the clock, and the model forbids the clock to
// pass openedAt + BatchTimeout + slack while the batch is still attached.
func (b *builder) trickleFamily(i int) *scenario {
	r := b.r
	timeout := time.Duration(8+4*(i%3)) * time.Millisecond
	sc := &scenario{name: "trickle" + strconv.Itoa(i), bs: 1000, bb: 1 << 20, ma: 2, async: i%2 == 0, compl: i%3 == 0, wtopic: "t",
		timeout: timeout, nparts: map[string]int{"t": 1}, faults: map[tpKey][]fault{}, closeAt: -1,
		linger: timeout + lingerSlack, trickle: timeout / 5}
	var calls []callSpec
	n := int(4 * (lingerSlack + timeout) / sc.trickle) // wall time of the trickle: 4 × linger, i.e. ≥ 2 × linger on the logical clock
	for k := 0; k < n; k++ {
		b.nextC++
		calls = append(calls, callSpec{id: b.nextC, msgs: []msgSpec{b.mkMsg(40+r.Intn(8), "", 0, false)}})
	}
	sc.callers = [][]callSpec{calls}
	if !sc.async {
		// synchronous callers wait for their batch: several of them keep the trickle going
		sc.callers = nil
		for c := 0; c < 6; c++ {
			var cs []callSpec
			for k := c; k < n; k += 6 {
				cs = append(cs, calls[k])
			}
			sc.callers = append(sc.callers, cs)
		}
	}
	return sc
}

// lingerSlack: how late after BatchTimeout the timer goroutine may get to close the batch (scheduling, the partition
// mutex) before the run counts it as "not closed BatchTimeout after it was opened"
const lingerSlack = 60 * time.Millisecond

// tombstones: batches in which a message with a nil Value (a tombstone) or a nil Key follows one that has both, and
// the other way round; also empty-but-not-nil keys and values.  What reaches the broker must be the message as given:
// null stays null, empty stays empty.  Odd scenarios run over the real Transport (the bytes on the wire).
func (b *builder) tombstones(i int) *scenario {
	r := b.r
	sc := &scenario{name: "tomb" + strconv.Itoa(i), bs: 4 + r.Intn(5), bb: 1 << 20, ma: 2, async: i%3 == 2, compl: i%2 == 0, wtopic: "t",
		timeout: 2 * time.Millisecond, nparts: map[string]int{"t": 1 + i%2}, faults: map[tpKey][]fault{}, closeAt: -1}
	if i%2 == 1 {
		sc.wire, sc.jitter, sc.jitterUs, sc.ma = 2, true, 300, 4
		sc.prodMax = []int16{3, 4, 0, 6}[(i/2)%4]
	}
	shapes := []string{"kv", "kn", "kv", "nv", "ke", "kn", "ev", "kv", "kn", "nv"}
	var calls []callSpec
	for c := 0; c < 2+r.Intn(2); c++ {
		b.nextC++
		cs := callSpec{id: b.nextC}
		n := 4 + r.Intn(6)
		off := r.Intn(len(shapes))
		for k := 0; k < n; k++ {
			cs.msgs = append(cs.msgs, b.shaped(b.mkMsg(40+r.Intn(10), "", r.Intn(sc.nparts["t"]), false), shapes[(off+k)%len(shapes)]))
		}
		calls = append(calls, cs)
	}
	sc.callers = [][]callSpec{calls}
	if i%4 >= 2 {
		sc.faults[tpKey{"t", 0}] = []fault{{kind: "lostack", code: 1}, {kind: "ok"}}
	}
	return sc
}

// stallWrite: over the real Transport; the broker stops reading in the middle of one produce request for longer than
// WriteTimeout.  The attempt must be cut off at the socket: the Writer retries on a fresh connection and goes on with the
// next batches, and when the stalled connection is drained again nothing more may arrive on it — otherwise a stale copy
// of the earlier batch is appended after later ones.
func (b *builder) stallWrite(i int) *scenario {
	r := b.r
	sc := &scenario{name: "stallw" + strconv.Itoa(i), bs: 1 + i%2, bb: 1 << 20, ma: 4, async: false, compl: i%2 == 0, wtopic: "t",
		timeout: 2 * time.Millisecond, nparts: map[string]int{"t": 1}, faults: map[tpKey][]fault{}, closeAt: -1,
		wire: 1 + i%2, special: "stallwrite", stallAt: 1 + i%3, writeTO: time.Duration(25+5*(i%3)) * time.Millisecond}
	var calls []callSpec
	for j := 0; j < 3+r.Intn(3); j++ {
		b.nextC++
		cs := callSpec{id: b.nextC}
		for k := 0; k < sc.bs; k++ {
			cs.msgs = append(cs.msgs, b.mkMsg(60+r.Intn(200), "", 0, false))
		}
		calls = append(calls, cs)
	}
	sc.callers = [][]callSpec{calls}
	return sc
}

// defaultBalancer: Writer.Balancer left unset.  One goroutine writes synchronously, so the default round-robin balancer
// sends the j-th message of the run to partition j mod n; the declared partitions say so.
func (b *builder) defaultBalancer(i int) *scenario {
	r := b.r
	n := 2 + i%3
	sc := &scenario{name: "defbal" + strconv.Itoa(i), bs: 1 + r.Intn(3), bb: 1 << 20, ma: 2, async: false, compl: i%2 == 0, wtopic: "t",
		timeout: 2 * time.Millisecond, nparts: map[string]int{"t": n}, faults: map[tpKey][]fault{}, closeAt: -1, defBal: true}
	var calls []callSpec
	j := 0
	for c := 0; c < 3+r.Intn(3); c++ {
		b.nextC++
		cs := callSpec{id: b.nextC}
		for k := 0; k < 1+r.Intn(4); k++ {
			cs.msgs = append(cs.msgs, b.mkMsg(40+r.Intn(20), "", j%n, false))
			j++
		}
		calls = append(calls, cs)
	}
	sc.callers = [][]callSpec{calls}
	return sc
}

// viaNewWriter: the Writer is built by NewWriter(WriterConfig) with BatchSize, MaxAttempts and BatchBytes all different
// from each other and from the defaults; calls longer than BatchSize (batches must close at exactly BatchSize),
// messages that do not fit BatchBytes together, and a fault script that needs exactly MaxAttempts attempts.
func (b *builder) viaNewWriter(i int) *scenario {
	r := b.r
	bs := []int{2, 3, 5, 7}[i%4]
	ma := []int{4, 1, 3, 2}[i%4]
	u := 50 + r.Intn(20)
	sc := &scenario{name: "newwriter" + strconv.Itoa(i), bs: bs, bb: int64(u*(bs+1+i%2) + 5), ma: ma, async: i%3 == 2, compl: false, wtopic: "t",
		timeout: 2 * time.Millisecond, nparts: map[string]int{"t": 1 + i%2}, faults: map[tpKey][]fault{}, closeAt: -1, viaNew: true}
	var calls []callSpec
	for c := 0; c < 2+r.Intn(2); c++ {
		b.nextC++
		cs := callSpec{id: b.nextC}
		for k := 0; k < bs+1+r.Intn(2*bs); k++ {
			cs.msgs = append(cs.msgs, b.mkMsg(u, "", 0, false))
		}
		calls = append(calls, cs)
	}
	sc.callers = [][]callSpec{calls}
	var script []fault
	for k := 0; k < ma-1; k++ {
		script = append(script, fault{kind: "kerr", code: 6})
	}
	script = append(script, fault{kind: "ok"})
	for k := 0; k < ma; k++ {
		script = append(script, fault{kind: "lostack", code: 1})
	}
	sc.faults[tpKey{"t", 0}] = script
	return sc
}

// sharedFail: many synchronous callers share every batch (BatchSize = number of callers, one message each, one
// partition) and the broker refuses every batch with a permanent code: each completion wakes all callers of the batch at
// once.  Every one of them must see the batch's error — a caller that reads the result before it is stored reports
// success for a message that is not in the log.
func (b *builder) sharedFail(i int) *scenario {
	ncallers, rounds := 384, 5
	sc := &scenario{name: "sharedfail" + strconv.Itoa(i), bs: ncallers, bb: 1 << 20, ma: 1 + i%2, async: false, compl: i%2 == 1, wtopic: "t",
		timeout: 5 * time.Millisecond, nparts: map[string]int{"t": 1}, faults: map[tpKey][]fault{}, closeAt: -1,
		dflt: fault{kind: "kerr", code: []int16{10, 87, 18}[i%3]}}
	for c := 0; c < ncallers; c++ {
		var calls []callSpec
		for k := 0; k < rounds; k++ {
			b.nextC++
			calls = append(calls, callSpec{id: b.nextC, msgs: []msgSpec{b.mkMsg(40, "", 0, false)}})
		}
		sc.callers = append(sc.callers, calls)
	}
	return sc
}

// manyTopics: a Writer without a topic of its own, one goroutine, calls of 13 to 40 messages spread over two or three
// topics: within every topic-partition the messages of a call must be produced in the order of the call's slice, also
// when the call is long.
func (b *builder) manyTopics(i int) *scenario {
	r := b.r
	sc := &scenario{name: "manytopics" + strconv.Itoa(i), bs: []int{3, 100, 7, 16}[i%4], bb: 1 << 20, ma: 2, async: i%3 == 2, compl: i%2 == 0, wtopic: "",
		timeout: 2 * time.Millisecond, nparts: map[string]int{"a": 1, "b": 1 + i%2, "c": 1}, faults: map[tpKey][]fault{}, closeAt: -1}
	topics := []string{"a", "b", "c"}[:2+i%2]
	var calls []callSpec
	for c := 0; c < 2; c++ {
		b.nextC++
		cs := callSpec{id: b.nextC}
		for k := 0; k < 13+r.Intn(28); k++ {
			t := topics[r.Intn(len(topics))]
			cs.msgs = append(cs.msgs, b.mkMsg(40+r.Intn(10), t, r.Intn(sc.nparts[t]), false))
		}
		calls = append(calls, cs)
	}
	sc.callers = [][]callSpec{calls}
	return sc
}

// oldBrokerBig: over the real Transport against brokers that speak Produce only up to v2 (message sets, format 1), with
// Compression set and batches of 70-200 KiB: the compressed wrapper message must carry the WHOLE inner message set —
// every message of an acknowledged batch is in the log.
func (b *builder) oldBrokerBig(i int) *scenario {
	r := b.r
	sc := &scenario{name: "oldbig" + strconv.Itoa(i), bs: 200, bb: 1 << 20, ma: 2, async: false, compl: i%2 == 0, wtopic: "t",
		timeout: 3 * time.Millisecond, nparts: map[string]int{"t": 1}, faults: map[tpKey][]fault{}, closeAt: -1,
		wire: 1 + i%2, prodMax: []int16{2, 1, 2, 0}[i%4], codec: 1 + i%4}
	var calls []callSpec
	for c := 0; c < 2; c++ {
		b.nextC++
		cs := callSpec{id: b.nextC}
		for k := 0; k < 60+r.Intn(60); k++ {
			cs.msgs = append(cs.msgs, b.mkMsg(900+r.Intn(900), "", 0, false))
		}
		calls = append(calls, cs)
	}
	sc.callers = [][]callSpec{calls}
	return sc
}

// tinyTimeout: BatchTimeout of microseconds with BatchSize 2 and odd message counts, while every batch creation is
// stalled inside the partition mutex: the linger timer of a batch expires while writeMessages fills and queues it and
// opens the next batch, so the timer branch of awaitBatch runs for a batch that is no longer attached
// (B.TimerFire … false) next to a newer open batch.
func (b *builder) tinyTimeout(i int) *scenario {
	r := b.r
	sc := &scenario{name: "tiny" + strconv.Itoa(i), bs: 2, bb: 1 << 20, ma: 2, async: i%3 != 2, compl: i%2 == 0, wtopic: "t",
		timeout: time.Duration(1+r.Intn(30)) * time.Microsecond, nparts: map[string]int{"t": 1}, faults: map[tpKey][]fault{}, closeAt: -1,
		sinkDelay: map[string]time.Duration{"PW.NewBatch": time.Duration(60+r.Intn(120)) * time.Microsecond}}
	if i%2 == 1 {
		// the append window: every append of a long call is stalled (inside ptw.mutex) while the batch's timer has
		// long expired and the batch is far from full — the timer goroutine must wait for the whole call
		sc.bs = 64
		sc.sinkDelay = map[string]time.Duration{"PW.Add": time.Duration(80+r.Intn(120)) * time.Microsecond}
	}
	ncallers := 1 + r.Intn(2)
	for c := 0; c < ncallers; c++ {
		var calls []callSpec
		for j := 0; j < 1+r.Intn(2); j++ {
			b.nextC++
			cs := callSpec{id: b.nextC}
			n := 3 + 2*r.Intn(10)
			for k := 0; k < n; k++ {
				cs.msgs = append(cs.msgs, b.mkMsg(40+r.Intn(5), "", 0, false))
			}
			calls = append(calls, cs)
		}
		sc.callers = append(sc.callers, calls)
	}
	return sc
}

// qstall: the sender is stalled inside batchQueue.Get (queue lock held) and timer flushes are stalled inside the
// partition mutex, with several callers writing small calls: whoever queues a batch has to wait for the queue lock,
// which shows whether the hand-over of an expired batch to the queue happens inside its partition-mutex section.
func (b *builder) qstall(i int) *scenario {
	r := b.r
	sc := &scenario{name: "qstall" + strconv.Itoa(i), bs: 3, bb: 1 << 20, ma: 2, async: i%4 != 3, compl: true, wtopic: "t",
		timeout: time.Duration(150+r.Intn(350)) * time.Microsecond, nparts: map[string]int{"t": 1}, faults: map[tpKey][]fault{}, closeAt: -1,
		jitter: true, jitterUs: 500,
		sinkDelay: map[string]time.Duration{"Q.Get:batch": time.Duration(1500+r.Intn(1500)) * time.Microsecond, "PW.Detach:timer": 150 * time.Microsecond}}
	for c := 0; c < 4; c++ {
		var calls []callSpec
		for j := 0; j < 8+r.Intn(5); j++ {
			b.nextC++
			cs := callSpec{id: b.nextC}
			for k := 0; k < 1+r.Intn(2); k++ {
				cs.msgs = append(cs.msgs, b.mkMsg(40+r.Intn(5), "", 0, false))
			}
			calls = append(calls, cs)
		}
		sc.callers = append(sc.callers, calls)
	}
	return sc
}

// exactFill: one call whose messages bring a batch EXACTLY to BatchBytes (count below BatchSize) or exactly to
// BatchSize, and then nothing more is written.
func (b *builder) exactFill(i int) *scenario {
	r := b.r
	u := 40 + r.Intn(30)
	k := 1 + i%4
	sc := &scenario{name: "exact" + strconv.Itoa(i), bs: 100, bb: int64(k * u), ma: 1, async: i%2 == 1, compl: false, wtopic: "t",
		timeout: 8 * time.Millisecond, nparts: map[string]int{"t": 1}, faults: map[tpKey][]fault{}, closeAt: -1}
	if i%5 == 4 {
		sc.bs, sc.bb = k, 1<<20
	}
	b.nextC++
	cs := callSpec{id: b.nextC}
	for j := 0; j < k; j++ {
		cs.msgs = append(cs.msgs, b.mkMsg(u, "", 0, false))
	}
	sc.callers = [][]callSpec{{cs}}
	return sc
}

// topicMix: Writer.Topic is set and one message of the call (first / middle / last) also names a topic that exists
// on the cluster (the writer's own or another one): the whole call must be rejected before anything is sent.
func (b *builder) topicMix(i int) *scenario {
	sc := &scenario{name: "topicmix" + strconv.Itoa(i), bs: 2, bb: 1 << 20, ma: 1, async: i%2 == 1, compl: true, wtopic: "t",
		timeout: 2 * time.Millisecond, nparts: map[string]int{"t": 2, "u": 1}, faults: map[tpKey][]fault{}, closeAt: -1}
	n := 1 + i%3*2 // 1, 3, 5 messages
	pos := []int{0, n / 2, n - 1}[(i/3)%3]
	b.nextC++
	cs := callSpec{id: b.nextC}
	for j := 0; j < n; j++ {
		topic := ""
		if j == pos {
			topic = []string{"u", "t"}[i%2]
		}
		part := 0
		if topic == "" {
			part = j % 2
		}
		cs.msgs = append(cs.msgs, b.mkMsg(45, topic, part, false))
	}
	// a legal call of the same goroutine afterwards: the writer still works
	b.nextC++
	ok := callSpec{id: b.nextC, msgs: []msgSpec{b.mkMsg(45, "", 0, false), b.mkMsg(45, "", 1, false)}}
	sc.callers = [][]callSpec{{cs, ok}}
	return sc
}

// codes: every error code of the pool answers exactly one produce attempt (sync calls of one message, BatchSize 1):
// MaxAttempts 1 — the code is the call's outcome; MaxAttempts 2 — temporary codes are retried and then acknowledged.
func (b *builder) codes(i int) *scenario {
	pool := append(append([]int16{}, permanentCodes...), temporaryCodes...)
	ma := 1 + i%2
	sc := &scenario{name: "codes" + strconv.Itoa(i), bs: 1, bb: 1 << 20, ma: ma, async: i%4 >= 2, compl: true, wtopic: "t",
		timeout: 2 * time.Millisecond, nparts: map[string]int{"t": 1}, faults: map[tpKey][]fault{}, closeAt: -1}
	var calls []callSpec
	var script []fault
	for k, c := range pool {
		if k%4 != i/4%4 && i < 16 {
			continue
		}
		b.nextC++
		calls = append(calls, callSpec{id: b.nextC, msgs: []msgSpec{b.mkMsg(45, "", 0, false)}})
		script = append(script, fault{kind: "kerr", code: c, msg: k%3 == 0})
		if ma == 2 && isTemporary(c) {
			script = append(script, fault{kind: "ok"})
		}
	}
	sc.callers = [][]callSpec{calls}
	sc.faults[tpKey{"t", 0}] = script
	return sc
}

func isTemporary(c int16) bool {
	for _, t := range temporaryCodes {
		if t == c {
			return true
		}
	}
	return false
}

// wire: the Writer over its real Transport against byte-level brokers; partition leaders move while batches are in
// flight (the old leader answers NOT_LEADER_FOR_PARTITION until the Transport's metadata refresh routes the retries to
// the new one), plus the usual fault script on the leaders.
func (b *builder) wireScenario(i int) *scenario {
	r := b.r
	sc := &scenario{name: "wire" + strconv.Itoa(i), bs: 1 + r.Intn(3), bb: 1 << 20, ma: 6, async: i%3 == 2, compl: true, wtopic: "t",
		timeout: time.Duration(1+r.Intn(3)) * time.Millisecond, nparts: map[string]int{"t": 1 + r.Intn(3)}, faults: map[tpKey][]fault{}, closeAt: -1,
		wire: 2 + r.Intn(2), jitter: true, jitterUs: 800}
	if i%4 == 3 {
		sc.wtopic = ""
		sc.nparts = map[string]int{"a": 1 + r.Intn(2), "b": 1 + r.Intn(2)}
	}
	var topics []string
	for t := range sc.nparts {
		topics = append(topics, t)
	}
	sort.Strings(topics)
	for c := 0; c < 2+r.Intn(2); c++ {
		var calls []callSpec
		for j := 0; j < 3+r.Intn(3); j++ {
			b.nextC++
			cs := callSpec{id: b.nextC}
			for k := 0; k < 1+r.Intn(3); k++ {
				tname := topics[r.Intn(len(topics))]
				topic := ""
				if sc.wtopic == "" {
					topic = tname
				}
				cs.msgs = append(cs.msgs, b.mkMsg(40+r.Intn(20), topic, r.Intn(sc.nparts[tname]), r.Intn(6) == 0))
			}
			calls = append(calls, cs)
		}
		sc.callers = append(sc.callers, calls)
	}
	if i%5 == 4 {
		sc.closeAt = time.Duration(500+r.Intn(4000)) * time.Microsecond // Close while requests are on the wire
	}
	sc.twoClus = i%3 == 0
	sc.prodMax = []int16{0, 3, 4, 7, 5, 3}[i%6] // old brokers: the Produce version the Transport negotiates down to
	// leader moves after a few produce requests, on random partitions
	nm := 1 + r.Intn(3)
	for k := 0; k < nm; k++ {
		tname := topics[r.Intn(len(topics))]
		sc.moves = append(sc.moves, leaderMove{after: 1 + r.Intn(8), topic: tname, part: r.Intn(sc.nparts[tname]), bounce: i%2 == 1 && k == 0})
	}
	// a few faults on the leaders (acknowledgement lost = connection dies after the append; temporary / permanent codes)
	for _, t := range topics {
		for p := 0; p < sc.nparts[t]; p++ {
			var q []fault
			for k := 0; k < r.Intn(4); k++ {
				switch x := r.Intn(10); {
				case x < 6:
					q = append(q, fault{kind: "ok"})
				case x < 8:
					q = append(q, fault{kind: "kerr", code: temporaryCodes[r.Intn(len(temporaryCodes))]})
				case x < 9:
					q = append(q, fault{kind: "kerr", code: permanentCodes[r.Intn(len(permanentCodes))], msg: true})
				default:
					q = append(q, fault{kind: "lostack"})
				}
			}
			sc.faults[tpKey{t, p}] = q
		}
	}
	return sc
}

// ---------------------------------------------------------------- running one scenario

type result struct {
	call int
	code string
}

func run(sc *scenario, out *bufio.Writer) {
	f := newFake()
	f.dflt = sc.dflt
	for t, n := range sc.nparts {
		f.nparts[t] = n
	}
	for k, v := range sc.faults {
		f.faults[k] = append([]fault(nil), v...)
	}
	partOf := map[string]int{}
	for _, calls := range sc.callers {
		for _, c := range calls {
			for _, m := range c.msgs {
				partOf[m.key] = m.part
			}
		}
	}
	var cbmu sync.Mutex
	var cbs []string
	var where []string
	w := &kafka.Writer{
		Addr: kafka.TCP("fake:9092"), Topic: sc.wtopic, Transport: f,
		Balancer: kafka.BalancerFunc(func(m kafka.Message, parts ...int) int {
			return parts[partOf[msgID(m.Key, m.Value)]%len(parts)]
		}),
		BatchSize: sc.bs, BatchBytes: sc.bb, BatchTimeout: sc.timeout, MaxAttempts: sc.ma,
		WriteBackoffMin: 200 * time.Microsecond, WriteBackoffMax: time.Millisecond,
		RequiredAcks: kafka.RequireOne, Async: sc.async,
	}
	if sc.viaNew {
		// the deprecated construction path: the options travel through WriterConfig and NewWriter's field-by-field copy
		nw := kafka.NewWriter(kafka.WriterConfig{
			Brokers: []string{"fake:9092"}, Topic: sc.wtopic, Balancer: w.Balancer,
			BatchSize: sc.bs, BatchBytes: int(sc.bb), BatchTimeout: sc.timeout, MaxAttempts: sc.ma,
			RequiredAcks: int(kafka.RequireOne), Async: sc.async,
		})
		nw.Transport = f
		nw.WriteBackoffMin, nw.WriteBackoffMax = w.WriteBackoffMin, w.WriteBackoffMax
		w = nw
	}
	if sc.defBal {
		w.Balancer = nil
	}
	// non-default options that must reach the broker unchanged: acks (One / All; None is outside C01) and the codec
	opt := len(sc.name)*7 + sc.bs + sc.ma + int(sc.bb%11)
	if opt%3 == 0 {
		w.RequiredAcks = kafka.RequireAll
	}
	w.Compression = kafka.Compression(opt % 5)
	if sc.codec > 0 {
		w.Compression = kafka.Compression(sc.codec)
	}
	f.wantAcks, f.wantAttrs = int16(w.RequiredAcks), int16(w.Compression)
	var wc *wireCluster
	var f2 *fakeRT
	if sc.wire > 0 {
		wc = newWireCluster(f, sc.wire, sc.nparts, append([]leaderMove(nil), sc.moves...), 'b')
		tr := &kafka.Transport{Dial: wc.Dial, MetadataTTL: 2 * time.Millisecond, IdleTimeout: time.Second, DialTimeout: time.Second}
		w.Transport, w.Addr = tr, wc.bootAddr()
		if sc.twoClus {
			// one Transport, two clusters with the same topics: another Writer (Addr = the other cluster) has used the
			// Transport first.  Each Writer must talk to the cluster its Addr names: the probe lands in the other
			// cluster only, nothing of this scenario's traffic does.
			f2 = newFake()
			for t, n := range sc.nparts {
				f2.nparts[t] = n
			}
			f2.wantAcks, f2.wantAttrs = int16(kafka.RequireOne), 0
			wc2 := newWireCluster(f2, 1, sc.nparts, nil, 'c')
			tr.Dial = func(ctx context.Context, network, addr string) (net.Conn, error) {
				if strings.HasPrefix(addr, "c") {
					return wc2.Dial(ctx, network, addr)
				}
				return wc.Dial(ctx, network, addr)
			}
			var t0 string
			for t := range sc.nparts {
				if t0 == "" || t < t0 {
					t0 = t
				}
			}
			w2 := &kafka.Writer{Addr: wc2.bootAddr(), Topic: t0, Transport: tr, BatchSize: 1, MaxAttempts: 2, RequiredAcks: kafka.RequireOne,
				BatchTimeout: time.Millisecond}
			pctx, pcancel := context.WithTimeout(context.Background(), 3*time.Second)
			if err := w2.WriteMessages(pctx, kafka.Message{Key: []byte("probe"), Value: []byte("x")}); err != nil {
				fmt.Fprintf(os.Stderr, "writer driver: probe write to the second cluster failed: %v\n", err)
			}
			pcancel()
			w2.Close()
			defer wc2.close()
		}
		w.WriteBackoffMin, w.WriteBackoffMax = 2*time.Millisecond, 6*time.Millisecond
		wc.stallAt = sc.stallAt
		wc.prodMax = sc.prodMax
		if sc.writeTO > 0 {
			w.WriteTimeout = sc.writeTO
		}
		defer func() {
			tr.CloseIdleConnections()
			wc.close()
			wireObs.scenarios++
			wireObs.misrouted += wc.misrouted
			wireObs.produce += wc.nprod
		}()
	}
	if sc.compl {
		w.Completion = func(msgs []kafka.Message, err error) {
			cbmu.Lock()
			for _, m := range msgs {
				cbs = append(cbs, msgID(m.Key, m.Value)+" "+kafka.VerifErrCode(err))
				if err == nil { // where the Writer says the message is: Topic / Partition / Offset as handed to Completion
					where = append(where, fmt.Sprintf("%s:%s/%d@%d", msgID(m.Key, m.Value), m.Topic, m.Partition, m.Offset))
				}
			}
			cbmu.Unlock()
		}
	}
	kafka.VerifStart()
	var tmu sync.Mutex
	born := map[string]time.Time{}
	bornLower := map[string]time.Time{}
	var sectionTime time.Time
	earlyTimers := 0
	var dumpMu sync.Mutex
	var dump func(why string) // set below, once the calls exist
	completed := map[string]bool{}
	// timed runs: recorder sequence number of a PW.NewBatch / PW.Add / B.TimerFire event -> reading of the run's clock.
	// The clock is a LOGICAL one: a goroutine of this process adds 500 (µs) after every time.Sleep(500µs) it completes.
	// Without load it runs at or somewhat below real time; when the process is starved (other checks running on the
	// machine) it slows down together with the library's timer goroutines, so "BatchTimeout + slack on this clock" is
	// a bound the scheduler cannot break by merely being slow.
	tickAt := map[int]int64{}
	var lclock int64
	if sc.linger > 0 {
		stopClock := make(chan struct{})
		defer close(stopClock)
		go func() {
			for {
				select {
				case <-stopClock:
					return
				default:
				}
				time.Sleep(500 * time.Microsecond)
				atomic.AddInt64(&lclock, 500)
			}
		}()
	}
	kafka.VerifSetSink(func(e kafka.VerifEvent) {
		now := time.Now()
		if sc.linger > 0 && (e.Kind == "PW.NewBatch" || e.Kind == "PW.Add" || e.Kind == "B.TimerFire") {
			tmu.Lock()
			tickAt[e.Seq] = atomic.LoadInt64(&lclock)
			tmu.Unlock()
		}
		switch e.Kind {
		case "W.Batch", "W.NewPW", "PW.Add":
			// events of the batchMessages critical section: emitted by the goroutine that holds w.mutex, so the time
			// taken here (in that goroutine, before it goes on) is EARLIER than the creation of any batch it opens next
			tmu.Lock()
			sectionTime = now
			tmu.Unlock()
		case "PW.Detach":
			if e.Args[2] == "full" || e.Args[2] == "nofit" {
				tmu.Lock()
				sectionTime = now
				tmu.Unlock()
			}
		case "PW.NewBatch":
			tmu.Lock()
			born[e.Args[1]] = now
			bornLower[e.Args[1]] = sectionTime
			sectionTime = now
			delete(completed, e.Args[1])
			tmu.Unlock()
		case "B.TimerFire":
			tmu.Lock()
			if t0, ok := born[e.Args[1]]; ok {
				timerObs.add(now.Sub(t0), sc.timeout)
			}
			// sound check: even measured from a time before the timer was armed to a time after it fired, less than
			// BatchTimeout (minus tolerance) has passed: the timer fired early, whatever the scheduler did
			if t0, ok := bornLower[e.Args[1]]; ok && !t0.IsZero() && len(sc.sinkDelay) == 0 && now.Sub(t0) < sc.timeout-time.Millisecond {
				earlyTimers++
			}
			tmu.Unlock()
		case "B.Complete":
			// a batch about to be completed a second time: batch.complete will panic (close of closed channel) and take
			// the process down; put the trace on record first
			tmu.Lock()
			again := completed[e.Args[1]]
			completed[e.Args[1]] = true
			tmu.Unlock()
			if again {
				dumpMu.Lock()
				d := dump
				dumpMu.Unlock()
				if d != nil {
					d("second B.Complete of one batch")
				}
			}
		}
		if len(sc.sinkDelay) > 0 {
			k := e.Kind
			switch e.Kind {
			case "PW.Detach":
				k += ":" + e.Args[2]
			case "Q.Get":
				if e.Args[1] != "nil" {
					k += ":batch"
				}
			}
			if d := sc.sinkDelay[k]; d > 0 {
				time.Sleep(d)
			}
		}
	})
	defer kafka.VerifSetSink(nil)
	// build the messages and name the calls by the recorder id of &msgs[0]
	type liveCall struct {
		spec callSpec
		msgs []kafka.Message
		ptr  string
	}
	live := make([][]liveCall, len(sc.callers))
	for ci, calls := range sc.callers {
		for _, c := range calls {
			lc := liveCall{spec: c}
			for _, m := range c.msgs {
				lc.msgs = append(lc.msgs, m.message())
			}
			lc.ptr = kafka.VerifID(&lc.msgs[0])
			live[ci] = append(live[ci], lc)
		}
	}
	var rmu sync.Mutex
	var results []result
	var wg sync.WaitGroup
	// ---- render (also used for an emergency dump right before a crash)
	dumped := false
	render := func(evs []kafka.VerifEvent, unsent int, stuck bool, stats string) {
		rmu.Lock()
		defer rmu.Unlock()
		f.mu.Lock()
		defer f.mu.Unlock()
		if dumped {
			return
		}
		dumped = true
		var sb strings.Builder
		wt := sc.wtopic
		if wt == "" {
			wt = "-"
		}
		fmt.Fprintf(&sb, "wtrace %s %d %d %d %d %d %s %d | ", sc.name, sc.bs, sc.bb, sc.ma, b2i(sc.async), b2i(sc.compl), wt, sc.linger.Microseconds())
		first := true
		for ci := range live {
			for si, lc := range live[ci] {
				if !first {
					sb.WriteString(";")
				}
				first = false
				fmt.Fprintf(&sb, "c%d %s %d %d ", lc.spec.id, lc.ptr, ci, si)
				for i, m := range lc.spec.msgs {
					if i > 0 {
						sb.WriteString(",")
					}
					t := m.topic
					if t == "" {
						t = "-"
					}
					fmt.Fprintf(&sb, "%s:%d:%s:%d", m.key, m.size, t, m.part)
					if m.shp() != "kv" {
						sb.WriteString(":" + m.shp())
					}
				}
			}
		}
		sb.WriteString(" | ")
		tmu.Lock()
		sb.WriteString(renderEvents(evs, tickAt))
		tmu.Unlock()
		sb.WriteString("\t")
		sort.Slice(results, func(i, j int) bool { return results[i].call < results[j].call })
		sb.WriteString("ret ")
		if len(results) == 0 {
			sb.WriteString("-")
		}
		for i, r := range results {
			if i > 0 {
				sb.WriteString(";")
			}
			fmt.Fprintf(&sb, "c%d %s", r.call, r.code)
		}
		sb.WriteString(" | log ")
		var tps []tpKey
		for tp, l := range f.logs {
			if len(l) > 0 {
				tps = append(tps, tp)
			}
		}
		sort.Slice(tps, func(i, j int) bool {
			return tps[i].topic < tps[j].topic || tps[i].topic == tps[j].topic && tps[i].part < tps[j].part
		})
		for i, tp := range tps {
			if i > 0 {
				sb.WriteString(";")
			}
			fmt.Fprintf(&sb, "%s/%d %s", tp.topic, tp.part, strings.Join(f.logs[tp], ","))
		}
		if len(tps) == 0 {
			sb.WriteString("-")
		}
		sb.WriteString(" | cb ")
		cbmu.Lock()
		sort.Slice(cbs, func(i, j int) bool { return keyLess(cbs[i], cbs[j]) })
		if len(cbs) == 0 {
			sb.WriteString("-")
		}
		sb.WriteString(strings.Join(cbs, ";"))
		cbmu.Unlock()
		tmu.Lock()
		early := earlyTimers
		tmu.Unlock()
		fmt.Fprintf(&sb, " | unsent %d | multi %d | stuck %d | stats %s | early %d", unsent, f.multi, b2i(stuck), stats, early)
		// how key and value of every record arrived at the broker (null / empty / bytes), all attempts
		var shp []string
		for k := range f.shapes {
			shp = append(shp, k)
		}
		sort.Strings(shp)
		if len(shp) == 0 {
			shp = []string{"-"}
		}
		sb.WriteString(" | shapes " + strings.Join(shp, ";"))
		cbmu.Lock()
		wh := append([]string(nil), where...)
		cbmu.Unlock()
		sort.Strings(wh)
		if len(wh) == 0 {
			wh = []string{"-"}
		}
		sb.WriteString(" | where " + strings.Join(wh, ";"))
		out.WriteString(sb.String())
		out.WriteString("\n")
		out.Flush()
	}
	dumpMu.Lock()
	dump = func(why string) {
		fmt.Fprintf(os.Stderr, "writer driver: %s in scenario %s: dumping the trace before the library panics\n", why, sc.name)
		render(kafka.VerifSnapshot(), 0, false, "-")
	}
	dumpMu.Unlock()
	if sc.special == "closewin" {
		f.metaGat[2] = "meta2"
	}
	for ci := range live {
		wg.Add(1)
		go func(ci int) {
			defer wg.Done()
			jr := rand.New(rand.NewSource(int64(ci) + 77))
			if sc.emptyCalls && ci%2 == 0 {
				if err := w.WriteMessages(context.Background()); err != nil && !errors.Is(err, io.ErrClosedPipe) {
					panic("empty WriteMessages returned " + err.Error())
				}
			}
			for k, lc := range live[ci] {
				if sc.trickle > 0 {
					if k == 0 {
						time.Sleep(time.Duration(ci) * sc.trickle)
					} else {
						time.Sleep(sc.trickle * time.Duration(len(live)))
					}
				}
				if sc.jitter && jr.Intn(2) == 0 {
					time.Sleep(time.Duration(jr.Intn(sc.jitterMaxUs())) * time.Microsecond)
				}
				ctx := context.Background()
				if lc.spec.cancel {
					var cancel context.CancelFunc
					ctx, cancel = context.WithCancel(ctx)
					switch lc.spec.cancelOn {
					case "":
						time.AfterFunc(time.Duration(jr.Intn(1500))*time.Microsecond, cancel)
					case "pre":
						cancel()
					default:
						go func(gate string) {
							f.waitReached(gate)
							cancel()
						}(lc.spec.cancelOn)
					}
				}
				err := w.WriteMessages(ctx, lc.msgs...)
				rmu.Lock()
				results = append(results, result{lc.spec.id, kafka.VerifErrCode(err)})
				rmu.Unlock()
			}
		}(ci)
	}
	closed := make(chan struct{})
	doClose := func() {
		w.Close()
		close(closed)
	}
	switch {
	case sc.special == "closewin":
		f.waitReached("p1")    // m1's produce is in flight (held)
		f.waitReached("meta2") // the second call passed enter() and sits in its metadata lookup
		go doClose()
		waitEvent("W.CloseMarked", 2*time.Second)
		f.open("meta2")
		time.Sleep(3 * time.Millisecond) // room for a (wrong) second sender to overtake
		f.open("p1")
	case sc.special == "holdretry":
		f.waitReached("p1")
		waitTimeout(&wg, 6*time.Second) // all later (async) calls are queued behind the held batch
		time.Sleep(2 * sc.timeout)
		f.open("p1")
	case sc.special == "stallwrite":
		// the broker stops reading in the middle of a produce request; the Writer gives the attempt up at WriteTimeout,
		// retries on another connection and goes on; only then does the stalled connection get drained again
		select {
		case <-wc.stalled:
		case <-time.After(3 * time.Second):
		}
		waitTimeout(&wg, 6*time.Second)
		close(wc.stallGate)
		select {
		case <-wc.stallDone:
		case <-time.After(2 * time.Second):
		}
	case sc.special == "ctxhold":
		f.waitReached("p1") // the first batch of the call to be cancelled is at the broker (held)
		waitEventArg("W.Return", 1, "ctx", 2*time.Second)
		time.Sleep(1500 * time.Microsecond) // the caller's next call gets queued behind the held batch
		f.open("p1")
	case sc.closeAt >= 0:
		time.Sleep(sc.closeAt)
		go doClose()
	}
	callersStuck := !waitTimeout(&wg, 3*time.Second)
	// every accepted message must get produced without further input (async: poll; sync calls have returned)
	unsent := 0
	if callersStuck {
		// a synchronous caller never got its batch completed: flush through Close so that the run ends
		unsent = 1
		go doClose()
		waitTimeout(&wg, 2*time.Second)
	} else if sc.closeAt < 0 && sc.special != "closewin" {
		deadline := time.Now().Add(sc.timeout + 2*time.Second)
		for {
			// accepted messages whose batch has not been attempted yet (from the hook events: PW.Add binds (call, index)
			// to a batch, PW.Attempt names the batch) — an attempt that dies before it reaches a broker still counts
			unsent = 0
			okcalls := map[string]int{}
			// a call that returned ctx.Err() from its wait for the batches (W.Return … ctx) has queued all its messages:
			// they must get produced like those of any other call
			ctxWaited := map[int]bool{}
			for _, e := range kafka.VerifSnapshot() {
				if e.Kind == "W.Return" && len(e.Args) > 1 && e.Args[1] == "ctx" {
					for ci := range live {
						for _, lc := range live[ci] {
							if lc.ptr == e.Args[0] {
								ctxWaited[lc.spec.id] = true
							}
						}
					}
				}
			}
			rmu.Lock()
			for _, r := range results {
				if r.code == "ok" || strings.HasPrefix(r.code, "werr") || (r.code == "ctx" && ctxWaited[r.call]) {
					for ci := range live {
						for _, lc := range live[ci] {
							if lc.spec.id == r.call {
								okcalls[lc.ptr] = len(lc.msgs)
							}
						}
					}
				}
			}
			rmu.Unlock()
			batchOf := map[string]string{}
			attempted := map[string]bool{}
			for _, e := range kafka.VerifSnapshot() {
				switch e.Kind {
				case "PW.Add":
					batchOf[e.Args[2]+"/"+e.Args[3]] = e.Args[1]
				case "PW.Attempt":
					attempted[e.Args[1]] = true
				case "PW.NewBatch":
					delete(attempted, e.Args[1]) // the recorder id of a freed batch may be reused
				}
			}
			for ptr, n := range okcalls {
				for k := 0; k < n; k++ {
					if b, ok := batchOf[ptr+"/"+strconv.Itoa(k)]; !ok || !attempted[b] {
						unsent++
					}
				}
			}
			if unsent == 0 || time.Now().After(deadline) {
				break
			}
			time.Sleep(500 * time.Microsecond)
		}
		go doClose()
	}
	stuck := false
	select {
	case <-closed:
	case <-time.After(4 * time.Second):
		stuck = true
	}
	evs := kafka.VerifStop()
	if sc.wire > 0 {
		// Over a real connection the broker cannot know whether its answer arrived: an acknowledgement it sent for an
		// attempt that the client then saw fail (connection torn down under the multiplexed Transport) is an
		// acknowledgement lost in transit.  The broker's record of such an attempt is corrected to `lost1` (and a rejection
		// whose answer did not arrive to `lost0`).
		keysOf := map[string][]string{} // raw batch id → keys in add order
		keyAt := map[string]string{}
		for ci := range live {
			for _, lc := range live[ci] {
				for k, m := range lc.spec.msgs {
					keyAt[lc.ptr+"/"+strconv.Itoa(k)] = m.key
				}
			}
		}
		for idx := range evs {
			e := &evs[idx]
			switch e.Kind {
			case "PW.NewBatch":
				delete(keysOf, e.Args[1])
			case "PW.Add":
				keysOf[e.Args[1]] = append(keysOf[e.Args[1]], keyAt[e.Args[2]+"/"+e.Args[3]])
			case "Br.Produce":
				if e.Args[3] != "acked" && !strings.HasPrefix(e.Args[3], "k") {
					continue
				}
				batch := ""
				for b, ks := range keysOf {
					if strings.Join(ks, ",") == e.Args[2] {
						batch = b
					}
				}
				// the answer to this request was read by the client completely (Br.Delivered follows the broker's decision
				// before its next decision on that partition): then it did arrive, whatever the client made of it
				delivered := false
				for j := idx + 1; j < len(evs); j++ {
					if evs[j].Kind == "Br.Produce" && evs[j].Args[0] == e.Args[0] && evs[j].Args[1] == e.Args[1] {
						break
					}
					if evs[j].Kind == "Br.Delivered" && evs[j].Args[0] == e.Args[0] && evs[j].Args[1] == e.Args[1] {
						delivered = true
						break
					}
				}
				if delivered {
					continue
				}
				for j := idx + 1; j < len(evs) && batch != ""; j++ {
					if evs[j].Kind == "PW.AttemptDone" && evs[j].Args[1] == batch {
						got := evs[j].Args[3]
						if e.Args[3] == "acked" && got != "ok" {
							e.Args[3] = "lost1"
						} else if e.Args[3] != "acked" && got != e.Args[3] {
							e.Args[3] = "lost0" // a rejection whose answer did not arrive: nothing applied, transport error
						}
						break
					}
				}
			}
		}
	}
	if callersStuck || unsent > 0 || stuck {
		failedScenarios++
	}
	// the Writer's own accounting (WriterStats; counters are reset by the read): produce attempts, messages and bytes
	// handed to them, failed attempts, retries, largest batch
	stats := "-"
	if !stuck {
		st := w.Stats()
		stats = fmt.Sprintf("w=%d,m=%d,b=%d,e=%d,r=%d,maxn=%d,maxb=%d", st.Writes, st.Messages, st.Bytes, st.Errors, st.Retries, st.BatchSize.Max, st.BatchBytes.Max)
	}
	if f2 != nil {
		// the other cluster holds the probe and nothing else; this scenario's cluster does not hold the probe
		f2.mu.Lock()
		n2 := 0
		for _, l := range f2.logs {
			n2 += len(l)
		}
		f2.mu.Unlock()
		f.mu.Lock()
		if n2 != 1 {
			f.multi++
		}
		for _, l := range f.logs {
			for _, k := range l {
				if k == "probe" {
					f.multi++
				}
			}
		}
		f.mu.Unlock()
	}
	render(evs, unsent, stuck, stats)
}

func (sc *scenario) jitterMaxUs() int {
	if sc.jitterUs > 0 {
		return sc.jitterUs
	}
	return 1500
}

// timerStats: observation only (timing is runtime): elapsed time between PW.NewBatch and B.TimerFire vs BatchTimeout.
type timerStats struct {
	mu                sync.Mutex
	n, early          int
	minSlack, maxLate time.Duration
}

var timerObs = &timerStats{minSlack: time.Hour}

// scenarios in which something hung (callers, unsent messages, Close): each costs seconds of watchdog time, so the
// driver stops generating new scenarios after a few of them
var failedScenarios int

// observation: produce requests over the real Transport, and how many reached a broker that had lost the leadership
var wireObs struct{ scenarios, produce, misrouted int }

func (t *timerStats) add(elapsed, timeout time.Duration) {
	t.mu.Lock()
	defer t.mu.Unlock()
	t.n++
	d := elapsed - timeout
	if d < t.minSlack {
		t.minSlack = d
	}
	if d > t.maxLate {
		t.maxLate = d
	}
	if d < -time.Millisecond {
		t.early++
	}
}

func waitTimeout(wg *sync.WaitGroup, d time.Duration) bool {
	ch := make(chan struct{})
	go func() { wg.Wait(); close(ch) }()
	select {
	case <-ch:
		return true
	case <-time.After(d):
		return false
	}
}

func keyLess(a, b string) bool {
	ka, kb := strings.SplitN(a, " ", 2)[0], strings.SplitN(b, " ", 2)[0]
	na, _ := strconv.Atoi(ka[1:])
	nb, _ := strconv.Atoi(kb[1:])
	if na != nb {
		return na < nb
	}
	return a < b
}

func b2i(b bool) int {
	if b {
		return 1
	}
	return 0
}

func waitEventArg(kind string, idx int, val string, max time.Duration) bool {
	deadline := time.Now().Add(max)
	for time.Now().Before(deadline) {
		for _, e := range kafka.VerifSnapshot() {
			if e.Kind == kind && len(e.Args) > idx && e.Args[idx] == val {
				return true
			}
		}
		time.Sleep(200 * time.Microsecond)
	}
	return false
}

func waitEvent(kind string, max time.Duration) bool {
	deadline := time.Now().Add(max)
	for time.Now().Before(deadline) {
		for _, e := range kafka.VerifSnapshot() {
			if e.Kind == kind {
				return true
			}
		}
		time.Sleep(200 * time.Microsecond)
	}
	return false
}

// renderEvents renames the recorder's object ids per kind to creation order (a freed object's address may be
// reused by a later one: ids are bound at the creating event) and joins the events with ';'.
func renderEvents(evs []kafka.VerifEvent, tickAt map[int]int64) string {
	pw, q, bt := map[string]string{}, map[string]string{}, map[string]string{}
	ren := func(m map[string]string, pre, raw string, create bool) string {
		if raw == "nil" {
			return raw
		}
		if create {
			m[raw] = pre + strconv.Itoa(len(m)+1)
			// len(m) counts distinct raw ids; a reused raw id must still get a fresh name
		}
		if v, ok := m[raw]; ok {
			return v
		}
		return "?" + raw
	}
	npw, nq, nb := 0, 0, 0
	var parts []string
	for _, e := range evs {
		// only the Writer's own alphabet (a real Transport underneath records its T.* events in the same log)
		if !(strings.HasPrefix(e.Kind, "W.") || strings.HasPrefix(e.Kind, "PW.") || strings.HasPrefix(e.Kind, "Q.") ||
			strings.HasPrefix(e.Kind, "B.") || strings.HasPrefix(e.Kind, "Br.")) {
			continue
		}
		if e.Kind == "Br.Delivered" { // the wire broker's note that its answer was read by the client: used before rendering only
			continue
		}
		if t, ok := tickAt[e.Seq]; ok {
			parts = append(parts, "T.Tick "+strconv.FormatInt(t, 10))
		}
		a := append([]string(nil), e.Args...)
		switch e.Kind {
		case "W.Enter", "W.Empty", "W.CloseBegin", "W.CloseMarked", "W.CloseReturn":
			a = a[1:] // drop the writer id (one writer per scenario)
		case "W.Begin":
			a = a[1:]
		case "W.NewPW":
			npw++
			nq++
			pw[a[1]] = "p" + strconv.Itoa(npw)
			q[a[2]] = "q" + strconv.Itoa(nq)
			a = []string{pw[a[1]], q[a[2]], a[3], a[4]}
		case "PW.NewBatch":
			nb++
			bt[a[1]] = "b" + strconv.Itoa(nb)
			a[0], a[1] = ren(pw, "p", a[0], false), bt[a[1]]
		case "PW.Add", "PW.Detach", "B.TimerFire", "PW.Attempt", "PW.AttemptDone", "B.Completion", "B.Complete":
			a[0], a[1] = ren(pw, "p", a[0], false), ren(bt, "b", a[1], false)
		case "Q.Put", "Q.Get":
			a[0], a[1] = ren(q, "q", a[0], false), ren(bt, "b", a[1], false)
		case "Q.Close":
			a[0] = ren(q, "q", a[0], false)
		}
		parts = append(parts, e.Kind+" "+strings.Join(a, " "))
	}
	return strings.Join(parts, ";")
}

func main() {
	out := bufio.NewWriterSize(os.Stdout, 1<<20)
	defer out.Flush()
	thorough := gen.Thorough()
	b := &builder{r: gen.New()}
	n := 160
	if thorough {
		n = 12000
	}
	if s := os.Getenv("VERIF_WRITER_N"); s != "" {
		n, _ = strconv.Atoi(s)
	}
	// forced schedules first
	run(b.closeWindow(true), out)
	run(b.holdRetry(3, "lostack"), out)
	run(b.holdRetry(4, "kerr"), out)
	run(b.holdRetry(2, "drop"), out)
	extra := 1
	if thorough {
		extra = 10
	}
	for i := 0; i < 16; i++ {
		run(b.codes(i), out)
	}
	for i := 0; i < 9*extra; i++ {
		run(b.topicMix(i), out)
	}
	for i := 0; i < 10*extra; i++ {
		run(b.exactFill(i), out)
	}
	for i := 0; i < 8*extra && failedScenarios < 3; i++ {
		run(b.tinyTimeout(i), out)
	}
	for i := 0; i < 10*extra && failedScenarios < 3; i++ {
		run(b.qstall(i), out)
	}
	for i := 0; i < 12*extra && failedScenarios < 3; i++ {
		run(b.wireScenario(i), out)
	}
	for i := 0; i < 12*extra && failedScenarios < 3; i++ {
		run(b.ctxHold(i), out)
	}
	for i := 0; i < 8*extra && failedScenarios < 3; i++ {
		run(b.defaults(i), out)
	}
	for i := 0; i < 8*extra && failedScenarios < 3; i++ {
		run(b.tombstones(i), out)
	}
	for i := 0; i < 3+extra && failedScenarios < 3; i++ {
		run(b.stallWrite(i), out)
	}
	for i := 0; i < 6*extra && failedScenarios < 3; i++ {
		run(b.defaultBalancer(i), out)
	}
	for i := 0; i < 8*extra && failedScenarios < 3; i++ {
		run(b.viaNewWriter(i), out)
	}
	for i := 0; i < 6*extra && failedScenarios < 3; i++ {
		run(b.manyTopics(i), out)
	}
	for i := 0; i < 4*extra && failedScenarios < 3; i++ {
		run(b.oldBrokerBig(i), out)
	}
	for i := 0; i < 2+extra/5 && failedScenarios < 3; i++ {
		run(b.sharedFail(i), out)
	}
	for i := 0; i < 3+extra && failedScenarios < 3; i++ {
		run(b.trickleFamily(i), out)
	}
	for i := 0; i < n && failedScenarios < 3; i++ {
		run(b.random(i, thorough), out)
	}
	if failedScenarios >= 3 {
		fmt.Fprintf(os.Stderr, "writer driver: %d scenarios hung (callers / unsent messages / Close); not generating further scenarios\n", failedScenarios)
	}
	fmt.Fprintf(out, "obs wire scenarios=%d produce_requests=%d answered_not_leader=%d\n", wireObs.scenarios, wireObs.produce, wireObs.misrouted)
	fmt.Fprintf(out, "obs timer fires=%d earlier_than_timeout_minus_1ms=%d min(elapsed-timeout)=%s max(elapsed-timeout)=%s\n",
		timerObs.n, timerObs.early, timerObs.minSlack, timerObs.maxLate)
}
