package main

// Byte-level broker cluster for the "wire" scenarios: the Writer runs over its REAL kafka.Transport (connection pool,
// ApiVersions negotiation, metadata cache with periodic refresh, routing of produce requests to partition leaders,
// request encoding, compression) against several in-process brokers on net.Pipe connections.  Cluster layout and
// metadata answers come from go/internal/fakecluster; produce requests are handled here: a broker that is not the
// current leader of the partition answers NOT_LEADER_FOR_PARTITION (nothing appended), the leader runs the same fault
// script / log / journal logic as the message-level fake.  Leaders move while batches are in flight.

import (
	"bytes"
	"context"
	"encoding/binary"
	"fmt"
	"io"
	"net"
	"strconv"
	"sync"

	kafka "github.com/segmentio/kafka-go"
	"github.com/segmentio/kafka-go/compress"
	"github.com/segmentio/kafka-go/protocol"
	"github.com/segmentio/kafka-go/protocol/apiversions"
	"github.com/segmentio/kafka-go/protocol/metadata"
	"github.com/segmentio/kafka-go/protocol/produce"

	"kvharness/internal/fakecluster"
)

type leaderMove struct {
	after  int // after this many produce requests have been received by the cluster
	topic  string
	part   int
	bounce bool // the cluster also drops every connection and refuses the next two dials
}

// wireConn: a served connection; busy is held while a request is being handled and answered, so that a scripted
// bounce never cuts an answer the journal already recorded as delivered (a cut at that point is scripted as `lostack`)
type wireConn struct {
	net.Conn
	busy sync.Mutex
	dead bool // set (under busy) by a bounce: a request read before the cut but not yet handled is dropped unhandled
}

type wireCluster struct {
	fc          *fakecluster.Cluster
	f           *fakeRT
	mu          sync.Mutex
	nprod       int
	moves       []leaderMove
	conns       []*wireConn
	misrouted   int // produce requests that arrived at a broker which is not the partition's leader
	dialFail    int // the next n dials fail (broker unreachable)
	dialsFailed int
	// a broker that stops reading in the middle of a request: the stallAt-th produce request to ARRIVE (counted when its
	// header has been read) is read to the middle of its body, then the connection is left alone until stallGate is
	// closed; stalled is closed when the stall begins, stallDone when that connection's handler has finished
	stallAt   int
	narrive   int
	stallGate chan struct{}
	stalled   chan struct{}
	stallDone chan struct{}
	prefix    byte   // first letter of the broker host names ("b1", "b2", …; a second cluster uses another letter)
	prodMax   int16  // > 0: the brokers advertise Produce up to this version only (old brokers: v3 / v4)
	stallRest string // what happened to the rest of the stalled request: "eof" (the client had given up) / "delivered"
}

func newWireCluster(f *fakeRT, nbrokers int, nparts map[string]int, moves []leaderMove, prefix byte) *wireCluster {
	fc := fakecluster.New()
	for i := 1; i <= nbrokers; i++ {
		b := fc.AddBroker(int32(i))
		b.Host, b.Port = string(prefix)+strconv.Itoa(i), 9092
	}
	fc.Controller = 1
	k := 0
	for t, n := range nparts {
		tp := &fakecluster.Topic{Parts: map[int32]*fakecluster.Part{}}
		for p := 0; p < n; p++ {
			l := int32(1 + k%nbrokers)
			k++
			tp.Parts[int32(p)] = &fakecluster.Part{Leader: l, Replicas: []int32{l}, Isr: []int32{l}}
		}
		fc.Topics[t] = tp
	}
	return &wireCluster{fc: fc, f: f, moves: moves, prefix: prefix, stallGate: make(chan struct{}), stalled: make(chan struct{}), stallDone: make(chan struct{})}
}

func (w *wireCluster) bootAddr() net.Addr { return kafka.TCP(string(w.prefix) + "1:9092") }

func (w *wireCluster) Dial(ctx context.Context, network, addr string) (net.Conn, error) {
	host, _, err := net.SplitHostPort(addr)
	if err != nil || len(host) < 2 || host[0] != w.prefix {
		return nil, fmt.Errorf("wire cluster: nothing listens on %s", addr)
	}
	id, err := strconv.Atoi(host[1:])
	if err != nil {
		return nil, fmt.Errorf("wire cluster: nothing listens on %s", addr)
	}
	w.mu.Lock()
	if w.dialFail > 0 {
		w.dialFail--
		w.dialsFailed++
		w.mu.Unlock()
		return nil, &net.OpError{Op: "dial", Net: network, Err: fmt.Errorf("wire cluster: %s unreachable", addr)}
	}
	w.mu.Unlock()
	cli, srv := net.Pipe()
	wcn := &wireConn{Conn: srv}
	w.mu.Lock()
	w.conns = append(w.conns, wcn)
	w.mu.Unlock()
	go w.serve(int32(id), wcn)
	return cli, nil
}

func (w *wireCluster) close() {
	w.mu.Lock()
	defer w.mu.Unlock()
	for _, c := range w.conns {
		c.Close()
	}
}

func (w *wireCluster) serve(broker int32, conn *wireConn) {
	defer conn.Close()
	for {
		// frame by hand (size, then api key + version, then the rest), so that a scripted stall can stop reading in the
		// middle of a produce request the way a broker that no longer drains its socket does
		var hdr [8]byte
		if _, err := io.ReadFull(conn, hdr[:]); err != nil {
			return
		}
		size := int(binary.BigEndian.Uint32(hdr[:4]))
		if size < 4 || size > 64<<20 {
			return
		}
		body := make([]byte, size-4)
		stallHere := false
		if binary.BigEndian.Uint16(hdr[4:6]) == 0 { // Produce
			w.mu.Lock()
			w.narrive++
			stallHere = w.stallAt > 0 && w.narrive == w.stallAt
			w.mu.Unlock()
		}
		if stallHere {
			half := len(body) / 2
			if _, err := io.ReadFull(conn, body[:half]); err != nil {
				close(w.stalled)
				close(w.stallDone)
				return
			}
			close(w.stalled)
			<-w.stallGate
			_, err := io.ReadFull(conn, body[half:])
			w.mu.Lock()
			if err != nil {
				w.stallRest = "eof"
			} else {
				w.stallRest = "delivered"
			}
			w.mu.Unlock()
			if err != nil {
				close(w.stallDone)
				return
			}
			ver, corr, _, msg, err := protocol.ReadRequest(bytes.NewReader(append(hdr[:], body...)))
			if err == nil {
				w.serveOne(broker, conn, ver, corr, msg)
			}
			close(w.stallDone)
			return
		}
		if _, err := io.ReadFull(conn, body); err != nil {
			return
		}
		if binary.BigEndian.Uint16(hdr[4:6]) == 0 && binary.BigEndian.Uint16(hdr[6:8]) <= 2 {
			// Produce v0-v2 (message sets): the request is parsed HERE, byte by byte from the protocol description, the
			// way an old broker does — a compressed wrapper message is decompressed and the inner message set is read up
			// to the last complete message (a truncated tail is ignored); not with the library's own decoder
			ver := int16(binary.BigEndian.Uint16(hdr[6:8]))
			corr, req, ok := parseOldProduce(body)
			if !ok {
				return
			}
			if !w.serveOne(broker, conn, ver, corr, req) {
				return
			}
			continue
		}
		ver, corr, _, msg, err := protocol.ReadRequest(bytes.NewReader(append(hdr[:], body...)))
		if err != nil {
			return
		}
		if !w.serveOne(broker, conn, ver, corr, msg) {
			return
		}
	}
}

func (w *wireCluster) serveOne(broker int32, conn *wireConn, ver int16, corr int32, msg protocol.Message) bool {
	conn.busy.Lock()
	defer conn.busy.Unlock()
	if conn.dead {
		return false
	}
	{
		var res protocol.Message
		switch m := msg.(type) {
		case *apiversions.Request:
			w.fc.Lock()
			keys := append([]apiversions.ApiKeyResponse(nil), w.fc.Advertised(broker)...)
			w.fc.Unlock()
			if w.prodMax > 0 {
				for i := range keys {
					if keys[i].ApiKey == 0 && keys[i].MaxVersion > w.prodMax {
						keys[i].MaxVersion = w.prodMax
					}
				}
			}
			res = &apiversions.Response{ApiKeys: keys}
		case *metadata.Request:
			w.fc.Lock()
			res = w.fc.MetadataAnswer(append([]string{}, m.TopicNames...), m.TopicNames == nil)
			w.fc.Unlock()
		case *produce.Request:
			r, drop := w.produce(broker, m)
			if drop {
				return false // the connection dies without an answer: a transport error on the client side
			}
			res = r
		default:
			return false
		}
		if res == nil {
			return true
		}
		if pr, ok := res.(*produce.Response); ok && ver <= 8 {
			// the answer to a produce request is encoded here, field by field from the Kafka protocol description — not
			// with the library's encoder, whose version tags are the ones its decoder uses
			if _, err := conn.Write(encodeProduceResponse(ver, corr, pr)); err != nil {
				return false
			}
			// net.Pipe: the write returns when the client has read every byte — the answer was delivered
			if len(pr.Topics) == 1 && len(pr.Topics[0].Partitions) == 1 {
				w.f.mu.Lock()
				kafka.VerifWriterEmit("Br.Delivered", pr.Topics[0].Topic, int(pr.Topics[0].Partitions[0].Partition))
				w.f.mu.Unlock()
			}
			return true
		}
		if err := protocol.WriteResponse(conn, ver, corr, res); err != nil {
			return false
		}
	}
	return true
}

func (w *wireCluster) produce(broker int32, m *produce.Request) (protocol.Message, bool) {
	// scripted leader moves, counted in produce requests seen by the whole cluster
	w.mu.Lock()
	w.nprod++
	n := w.nprod
	var due []leaderMove
	rest := w.moves[:0]
	for _, mv := range w.moves {
		if mv.after <= n {
			due = append(due, mv)
		} else {
			rest = append(rest, mv)
		}
	}
	w.moves = rest
	w.mu.Unlock()
	w.fc.Lock()
	for _, mv := range due {
		if t := w.fc.Topics[mv.topic]; t != nil {
			if p := t.Parts[int32(mv.part)]; p != nil {
				ids := w.fc.BrokerIDs()
				next := ids[0]
				for i, id := range ids {
					if id == p.Leader {
						next = ids[(i+1)%len(ids)]
					}
				}
				p.Leader, p.Replicas, p.Isr = next, []int32{next}, []int32{next}
				if mv.bounce {
					w.mu.Lock()
					w.dialFail += 2
					old := w.conns
					w.conns = nil
					w.mu.Unlock()
					go func() {
						for _, c := range old {
							c.busy.Lock() // let an answer in progress go out
							c.dead = true
							c.Close()
							c.busy.Unlock()
						}
					}()
				}
			}
		}
	}
	leaderOK := true
	if len(m.Topics) == 1 && len(m.Topics[0].Partitions) == 1 {
		t := w.fc.Topics[m.Topics[0].Topic]
		if t == nil || t.Parts[m.Topics[0].Partitions[0].Partition] == nil ||
			t.Parts[m.Topics[0].Partitions[0].Partition].Leader != broker {
			leaderOK = false
		}
	}
	w.fc.Unlock()
	if !leaderOK {
		// not the leader: nothing is appended; the records are still read (to name them in the journal)
		topic := m.Topics[0].Topic
		part := int(m.Topics[0].Partitions[0].Partition)
		keys, shapes := readRecs(m.Topics[0].Partitions[0].RecordSet.Records)
		w.mu.Lock()
		w.misrouted++
		w.mu.Unlock()
		w.f.mu.Lock()
		for i, k := range keys {
			w.f.attempted[k] = true
			w.f.shapes[k+":"+shapes[i]] = true
		}
		kafka.VerifWriterEmit("Br.Produce", topic, part, joinKeys(keys), "k6")
		w.f.mu.Unlock()
		return &produce.Response{Topics: []produce.ResponseTopic{{Topic: topic, Partitions: []produce.ResponsePartition{{Partition: int32(part), ErrorCode: 6}}}}}, false
	}
	res, err := w.f.produce(m)
	if err != nil {
		return nil, true
	}
	return res.(*produce.Response), false
}

func joinKeys(keys []string) string {
	if len(keys) == 0 {
		return "-"
	}
	s := keys[0]
	for _, k := range keys[1:] {
		s += "," + k
	}
	return s
}

// encodeProduceResponse: Produce response v0..v8 (none of them flexible) as the protocol describes it:
// header = size int32, correlation id int32; body = [responses] (topic string, [partitions] (index int32, error_code
// int16, base_offset int64, v2+: log_append_time int64, v5+: log_start_offset int64, v8+: [record_errors] (batch_index
// int32, message nullable string), error_message nullable string)), v1+: throttle_time_ms int32.
func encodeProduceResponse(ver int16, corr int32, r *produce.Response) []byte {
	var b []byte
	i16 := func(v int16) { b = binary.BigEndian.AppendUint16(b, uint16(v)) }
	i32 := func(v int32) { b = binary.BigEndian.AppendUint32(b, uint32(v)) }
	i64 := func(v int64) { b = binary.BigEndian.AppendUint64(b, uint64(v)) }
	str := func(s string) { i16(int16(len(s))); b = append(b, s...) }
	nstr := func(s string) {
		if s == "" {
			i16(-1)
			return
		}
		str(s)
	}
	i32(0) // size, patched below
	i32(corr)
	i32(int32(len(r.Topics)))
	for _, t := range r.Topics {
		str(t.Topic)
		i32(int32(len(t.Partitions)))
		for _, p := range t.Partitions {
			i32(p.Partition)
			i16(p.ErrorCode)
			i64(p.BaseOffset)
			if ver >= 2 {
				i64(p.LogAppendTime)
			}
			if ver >= 5 {
				i64(p.LogStartOffset)
			}
			if ver >= 8 {
				i32(int32(len(p.RecordErrors)))
				for _, e := range p.RecordErrors {
					i32(e.BatchIndex)
					nstr(e.BatchIndexErrorMessage)
				}
				nstr(p.ErrorMessage)
			}
		}
	}
	if ver >= 1 {
		i32(r.ThrottleTimeMs)
	}
	binary.BigEndian.PutUint32(b[:4], uint32(len(b)-4))
	return b
}

// parseOldProduce reads a Produce v0-v2 request body (everything after size, api key and version): correlation id,
// client id, acks, timeout, [topics] (name, [partitions] (index, message set bytes)).
func parseOldProduce(b []byte) (corr int32, req *produce.Request, ok bool) {
	p := 0
	need := func(n int) bool { return n >= 0 && p+n <= len(b) }
	i16 := func() int { v := int(int16(binary.BigEndian.Uint16(b[p:]))); p += 2; return v }
	i32 := func() int { v := int(int32(binary.BigEndian.Uint32(b[p:]))); p += 4; return v }
	if !need(6) {
		return
	}
	corr = int32(i32())
	if n := i16(); n > 0 {
		if !need(n) {
			return
		}
		p += n
	}
	if !need(10) {
		return
	}
	req = &produce.Request{}
	req.Acks = int16(i16())
	req.Timeout = int32(i32())
	nt := i32()
	for t := 0; t < nt; t++ {
		if !need(2) {
			return
		}
		n := i16()
		if !need(n + 4) {
			return
		}
		rt := produce.RequestTopic{Topic: string(b[p : p+n])}
		p += n
		np := i32()
		for q := 0; q < np; q++ {
			if !need(8) {
				return
			}
			part := i32()
			sz := i32()
			if !need(sz) {
				return
			}
			recs, attrs := parseMessageSet(b[p:p+sz], 0)
			p += sz
			rt.Partitions = append(rt.Partitions, produce.RequestPartition{Partition: int32(part),
				RecordSet: protocol.RecordSet{Version: 1, Attributes: protocol.Attributes(attrs), Records: protocol.NewRecordReader(recs...)}})
		}
		req.Topics = append(req.Topics, rt)
	}
	return corr, req, true
}

// parseMessageSet reads a message set of format 0 / 1: [offset int64, size int32, crc int32, magic int8, attributes
// int8, (magic 1: timestamp int64), key bytes, value bytes]*; a message whose attributes name a codec wraps a compressed
// inner message set.  Reading stops at the first incomplete message.  Returns the records and the codec bits seen.
func parseMessageSet(b []byte, depth int) (recs []protocol.Record, attrs int8) {
	p := 0
	for p+12 <= len(b) {
		size := int(int32(binary.BigEndian.Uint32(b[p+8:])))
		if size < 6 || p+12+size > len(b) {
			break
		}
		m := b[p+12 : p+12+size]
		p += 12 + size
		magic, at := int8(m[4]), int8(m[5])
		q := 6
		if magic >= 1 {
			q += 8
		}
		field := func() ([]byte, bool) {
			if q+4 > len(m) {
				return nil, false
			}
			n := int(int32(binary.BigEndian.Uint32(m[q:])))
			q += 4
			if n < 0 {
				return nil, true
			}
			if q+n > len(m) {
				return nil, false
			}
			v := m[q : q+n : q+n]
			q += n
			if v == nil {
				v = []byte{}
			}
			return v, true
		}
		key, ok1 := field()
		val, ok2 := field()
		if !ok1 || !ok2 {
			break
		}
		if codec := at & 7; codec != 0 && depth == 0 {
			attrs |= codec
			rd := compress.Compression(codec).Codec().NewReader(bytes.NewReader(val))
			inner, _ := io.ReadAll(rd) // whatever decompresses; a cut stream gives what was readable
			rd.Close()
			r2, _ := parseMessageSet(inner, 1)
			recs = append(recs, r2...)
			continue
		}
		rec := protocol.Record{}
		if key != nil {
			rec.Key = protocol.NewBytes(append([]byte{}, key...))
			if len(key) == 0 {
				rec.Key = protocol.NewBytes([]byte{})
			}
		}
		if val != nil {
			rec.Value = protocol.NewBytes(append([]byte{}, val...))
		}
		recs = append(recs, rec)
	}
	return
}
