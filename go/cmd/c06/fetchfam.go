package main

import (
	"bytes"
	"errors"
	"fmt"
	"io"
	"math/rand"
	"net"
	"strconv"
	"sync"
	"time"

	kafka "github.com/segmentio/kafka-go"
)

// fetchScenario: ONE caller on one Conn alternates Fetch exchanges, read through every Batch path, with tagged
// ReadOffset calls.  The fetch responses are in the "tail" form (tailSet): the bytes a correct client skips when it
// closes the Batch early, reads a value into a buffer that is too short, or is handed a message larger than it
// asked for, spell a response frame for the next correlation id with a foreign payload.
//
// read paths (op): rm = ReadMessage; rd<cap> = Read into a buffer of that capacity (F = exactly the part of the
// last value in front of the embedded frame, small = shorter than the tag prefix / the key, exact, large);
// sequences of two reads on the two messages; then Close.
func fetchScenario(r *rand.Rand, idx int) {
	cl, sv := net.Pipe()
	conn := kafka.NewConnWith(cl, kafka.ConnConfig{ClientID: "c06", Topic: "t", Partition: 0})
	conn.Seek(0, kafka.SeekAbsolute|kafka.SeekDontCheck)
	ver := []int16{2, 5, 10}[idx%3]
	maxBytes := []int{1 << 20, 64, 200, 1}[(idx/3)%4]
	b := &muxBroker{conn: sv, pending: make(chan muxReq, 64), done: make(chan struct{}), r: rand.New(rand.NewSource(r.Int63())),
		rr: rand.New(rand.NewSource(r.Int63())), batch: 1, order: "fifo", faults: map[int]fault{},
		tailForm: true, keyed: (idx/12)%2 == 1, oversize: maxBytes < 1<<20, filler: 5 + r.Intn(90), fetchVer: ver}
	go b.readLoop()
	go b.sendLoop()

	var mu sync.Mutex
	cur := 0
	writeTag := map[int]int{}
	kafka.VerifSetSink(func(e kafka.VerifEvent) {
		if e.Kind == "C.Write" {
			mu.Lock()
			writeTag[e.Seq] = cur
			mu.Unlock()
		}
	})
	kafka.VerifStart()
	var results []callRes
	tagBase := 100000 + r.Intn(8000)*100
	embLen := len(embeddedFrame(0))
	tagOf := func(p []byte) string {
		if i := bytes.IndexByte(p, ';'); i > 0 {
			if _, err := strconv.Atoi(string(p[:i])); err == nil {
				return "ok:" + string(p[:i])
			}
		}
		return "ok:?"
	}
	vlen2 := -1 // length of the last message's value, learnt by the first (probing) fetch
	fetch := func(tag int, ops []string) string {
		bt := conn.ReadBatchWith(kafka.ReadBatchConfig{MinBytes: 1, MaxBytes: maxBytes, MaxWait: time.Duration(tag) * time.Millisecond})
		res := ""
		var ferr error
		for _, op := range ops {
			if op == "rm" {
				msg, err := bt.ReadMessage()
				if err != nil {
					ferr = err
					break
				}
				if res == "" {
					res = tagOf(msg.Value)
				}
				vlen2 = len(msg.Value) // the last one read so far
				continue
			}
			capb := 0
			switch op {
			case "rdF":
				capb = vlen2 - embLen
			case "rdsmall":
				capb = 3
			case "rdexact":
				capb = vlen2
			default:
				capb = vlen2 + 17
			}
			if capb < 0 {
				capb = 0
			}
			buf := make([]byte, capb)
			n, err := bt.Read(buf)
			if err != nil && !errors.Is(err, io.ErrShortBuffer) {
				ferr = err
				break
			}
			if res == "" || res == "ok:?" {
				res = tagOf(buf[:n])
			}
		}
		cerr := bt.Close()
		switch {
		case res != "":
			return res
		case ferr != nil && errors.Is(ferr, io.EOF) && cerr == nil:
			return "ok:?"
		case ferr != nil:
			return errRes(ferr)
		case cerr != nil && !errors.Is(cerr, io.ErrShortBuffer):
			return errRes(cerr)
		}
		return "ok:?"
	}
	plans := [][]string{{"rm", "rm"}, // probe: learns the value lengths
		{"rm", "rdF"}, {"rdF"}, {"rm"}, {"rm", "rdsmall"}, {"rdsmall", "rm"}, {"rm", "rdexact"}, {"rdlarge", "rdlarge"},
		{"rdF", "rdF"}, {"rm", "rm", "rm"}, {"rdexact"}}
	n := 0
	call := func(kind string, ops []string) {
		tag := tagBase + n
		n++
		mu.Lock()
		cur = tag
		mu.Unlock()
		conn.SetDeadline(time.Now().Add(2 * time.Second))
		if kind == "fetch" {
			results = append(results, callRes{tag, fetch(tag, ops)})
			return
		}
		off, err := conn.ReadOffset(time.UnixMilli(int64(tag)))
		if err != nil {
			results = append(results, callRes{tag, errRes(err)})
		} else {
			results = append(results, callRes{tag, fmt.Sprintf("ok:%d", off)})
		}
	}
	call("fetch", plans[0])
	call("offset", nil)
	for k := 0; k < 3; k++ {
		call("fetch", plans[1+(idx+k*4)%(len(plans)-1)])
		call("offset", nil)
	}
	evs := kafka.VerifStop()
	kafka.VerifSetSink(nil)
	conn.Close()
	<-b.done
	b.mu.Lock()
	sent, reqs := append([]sentFrame(nil), b.sent...), append([]muxReq(nil), b.reqs...)
	b.mu.Unlock()
	emitMux(sent, reqs, evs, writeTag, results)
}

func fetchScenarios(r *rand.Rand, thorough bool) {
	n := 48
	if thorough {
		n = 240
	}
	for i := 0; i < n; i++ {
		fin := make(chan struct{})
		go func() {
			select {
			case <-fin:
			case <-time.After(20 * time.Second):
				out.Flush()
				fmt.Fprintf(out, "hang fetch-scenario-%d\thang\n", i)
				out.Flush()
				panic("c06: fetch scenario did not finish within 20s")
			}
		}()
		fetchScenario(r, i)
		out.Flush()
		close(fin)
	}
}
