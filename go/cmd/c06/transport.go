package main

import "math/rand"

func transportScenarios(r *rand.Rand, thorough bool) {}
