package main

import (
	"os"
	"context"
	"errors"
	"fmt"
	"math/rand"
	"net"
	"sort"
	"strconv"
	"strings"
	"sync"
	"time"

	kafka "github.com/segmentio/kafka-go"
	"github.com/segmentio/kafka-go/protocol"
	"github.com/segmentio/kafka-go/protocol/apiversions"
	"github.com/segmentio/kafka-go/protocol/findcoordinator"
	"github.com/segmentio/kafka-go/protocol/listoffsets"
	"github.com/segmentio/kafka-go/protocol/metadata"
	"github.com/segmentio/kafka-go/protocol/produce"

	"kvharness/internal/muxfake"
)

// namedConn gives every pipe a distinct local address so that the T.New hook event can be linked to the
// fake broker's journal of that connection.
type namedConn struct {
	net.Conn
	name string
}

type pipeAddr string

func (a pipeAddr) Network() string { return "pipe" }
func (a pipeAddr) String() string  { return string(a) }

func (c namedConn) LocalAddr() net.Addr { return pipeAddr(c.name) }

type fixedResolver struct{ ips []net.IPAddr }

func (f fixedResolver) LookupBrokerIPAddr(ctx context.Context, broker kafka.Broker) ([]net.IPAddr, error) {
	return f.ips, nil
}

type tJournal struct {
	mu     sync.Mutex
	reqs   []int       // tags of the requests received after set-up, in order
	frames []sentFrame // frames sent after set-up, in order
	conn   net.Conn
}

type tBroker struct {
	mu     sync.Mutex
	conns  []*tJournal
	r      *rand.Rand
	host   string // how the broker is addressed (bootstrap address and metadata)
	pFault int // per cent of tagged requests that get a fault
	slow   time.Duration
	smu    sync.Mutex
	script map[int]string // tag → scripted fault (overrides the random choice)
}

func (b *tBroker) scripted(tag int) (string, bool) {
	b.smu.Lock()
	defer b.smu.Unlock()
	f, ok := b.script[tag]
	return f, ok
}

func (b *tBroker) setScript(tag int, f string) {
	b.smu.Lock()
	if b.script == nil {
		b.script = map[int]string{}
	}
	b.script[tag] = f
	b.smu.Unlock()
}

func (b *tBroker) dial(ctx context.Context, network, address string) (net.Conn, error) {
	// kernel-buffered connection: a request can be written while the broker is still busy with (or late on) the
	// previous one, as over TCP
	cl, sv, err := socketpair()
	if err != nil {
		return nil, err
	}
	j := &tJournal{conn: sv}
	b.mu.Lock()
	k := len(b.conns)
	b.conns = append(b.conns, j)
	seed := b.r.Int63()
	b.mu.Unlock()
	go b.serve(sv, j, rand.New(rand.NewSource(seed)))
	return namedConn{cl, fmt.Sprintf("pipe-%d", k)}, nil
}

func (b *tBroker) serve(conn net.Conn, j *tJournal, r *rand.Rand) {
	defer conn.Close()
	send := func(id int32, tag int, frame []byte) bool {
		j.mu.Lock()
		j.frames = append(j.frames, sentFrame{u32(id), tag})
		j.mu.Unlock()
		conn.SetWriteDeadline(time.Now().Add(2 * time.Second))
		_, err := conn.Write(frame)
		return err == nil
	}
	for {
		frame, err := muxfake.ReadFrame(conn)
		if err != nil {
			return
		}
		h, err := muxfake.ParseHeader(frame)
		if err != nil {
			return
		}
		enc := func(id int32, m protocol.Message) []byte {
			p, err := muxfake.Encode(h.Ver, id, m)
			if err != nil {
				panic(err)
			}
			return p
		}
		if h.Key == 18 {
			// set-up exchange (not part of the journal: the model's conn starts after it)
			conn.Write(enc(h.Corr, &apiversions.Response{ApiKeys: []apiversions.ApiKeyResponse{{ApiKey: 18, MaxVersion: 0},
				{ApiKey: 3, MinVersion: 1, MaxVersion: 1}, {ApiKey: 2, MinVersion: 1, MaxVersion: 1}, {ApiKey: 10, MinVersion: 1, MaxVersion: 1}}}))
			continue
		}
		tag := 0
		var res protocol.Message
		msg, _ := muxfake.Decode(frame)
		switch m := msg.(type) {
		case *metadata.Request:
			res = &metadata.Response{Brokers: []metadata.ResponseBroker{{NodeID: 1, Host: b.host, Port: 9092}}, ControllerID: 1,
				Topics: []metadata.ResponseTopic{{Name: "t", Partitions: []metadata.ResponsePartition{
					{PartitionIndex: 0, LeaderID: 1, ReplicaNodes: []int32{1}, IsrNodes: []int32{1}}}}}}
		case *listoffsets.Request:
			if len(m.Topics) == 1 && len(m.Topics[0].Partitions) == 1 {
				tag = int(m.Topics[0].Partitions[0].Timestamp)
			}
			res = &listoffsets.Response{Topics: []listoffsets.ResponseTopic{{Topic: "t",
				Partitions: []listoffsets.ResponsePartition{{Partition: 0, Timestamp: int64(tag), Offset: int64(tag)}}}}}
		case *findcoordinator.Request:
			tag, _ = strconv.Atoi(strings.TrimPrefix(m.Key, "g"))
			res = &findcoordinator.Response{NodeID: 1, Host: b.host, Port: 9092, ErrorMessage: "g" + strconv.Itoa(tag)}
		default:
			return
		}
		j.mu.Lock()
		j.reqs = append(j.reqs, tag)
		j.mu.Unlock()
		f := ""
		if tag != 0 && r.Intn(100) < b.pFault {
			f = []string{"delay", "drop", "badid", "close", "late", "delay", "late", "late"}[r.Intn(8)]
		}
		if sf, ok := b.scripted(tag); ok {
			f = sf
		}
		switch f {
		case "drop":
			continue
		case "close":
			return
		case "badid":
			if !send(h.Corr+7, tag, enc(h.Corr+7, res)) {
				return
			}
			continue
		case "delay":
			time.Sleep(time.Duration(1+r.Intn(10)) * time.Millisecond)
		case "late":
			time.Sleep(b.slow)
		}
		if !send(h.Corr, tag, enc(h.Corr, res)) {
			return
		}
	}
}

// transportScenario runs one Transport scenario.  lateFamily: every goroutine issues PAIRS of requests of the
// same kind to the same broker — the first with a context deadline shorter than the scripted delay of its
// answer (the answer is sent late, after the caller gave up), the second right afterwards with a different
// tag and a generous deadline.
func transportScenario(r *rand.Rand, thorough bool, lateFamily bool) {
	b := &tBroker{r: rand.New(rand.NewSource(r.Int63())), pFault: []int{0, 15, 35}[r.Intn(3)], slow: time.Duration(80+r.Intn(60)) * time.Millisecond}
	// sometimes idle connections expire between (and during) the calls: the idle timer's removeConn races with grabConn
	idle := []time.Duration{time.Hour, time.Hour, 2 * time.Millisecond, 8 * time.Millisecond}[r.Intn(4)]
	if lateFamily {
		idle = time.Hour
	}
	closeMid := !lateFamily && r.Intn(5) == 0 // CloseIdleConnections while calls are in flight
	tr := &kafka.Transport{Dial: b.dial, MetadataTTL: 24 * time.Hour, IdleTimeout: idle, ClientID: "c06"}
	// non-default option: with a Resolver the pool looks for an idle conn to the resolved address (grabConnTo) instead of
	// popping the idle stack (grabConn), and connects to one of the resolved addresses
	// grabConnTo compares the RESOLVED ip:port with the address the conn was dialled at, which is the group's host:port:
	// an idle conn is only ever found when the broker is addressed by IP (with host names every request connects anew —
	// noted, not a C06 matter), so the Resolver scenarios address the broker as 127.0.0.1
	b.host = "broker1"
	pick := r.Intn(3)
	if os.Getenv("C06_RESOLVER") != "" {
		pick = 1 + pick%2
	}
	if pick != 0 {
		b.host = "127.0.0.1"
	}
	switch pick {
	case 1:
		tr.Resolver = fixedResolver{[]net.IPAddr{{IP: net.IPv4(127, 0, 0, 1)}}}
	case 2:
		tr.Resolver = fixedResolver{[]net.IPAddr{{IP: net.IPv4(127, 0, 0, 1)}, {IP: net.IPv4(127, 0, 0, 2)}}}
	}
	addr := kafka.TCP(b.host + ":9092")
	kafka.VerifStart()
	// warm-up: the pool becomes ready (discover's Metadata exchange on the first ctrl conn)
	wctx, wcancel := context.WithTimeout(context.Background(), 5*time.Second)
	_, werr := tr.RoundTrip(wctx, addr, &metadata.Request{TopicNames: []string{"t"}})
	wcancel()
	if werr != nil {
		kafka.VerifStop()
		fmt.Fprintf(out, "tconn-warmup-failed %v\t-\n", strings.ReplaceAll(werr.Error(), " ", "_"))
		return
	}
	nG := 2 + r.Intn(6)
	perG := 1 + r.Intn(4)
	if lateFamily {
		b.pFault = 0
		nG = 1 + r.Intn(3)
		perG = 2 * (1 + r.Intn(3))
	}
	tagBase := 1000 + r.Intn(1000)*100
	var mu sync.Mutex
	var results []callRes
	var abandoned []int
	var wg sync.WaitGroup
	for g := 0; g < nG; g++ {
		wg.Add(1)
		type plan struct {
			kind    string
			timeout time.Duration // 0 = none
			cancel  time.Duration // 0 = never
		}
		plans := make([]plan, perG)
		for i := range plans {
			plans[i].kind = []string{"offsets", "coord", "offsets", "coord", "emptyproduce"}[r.Intn(5)]
			switch r.Intn(3) {
			case 0:
				plans[i].timeout = time.Duration(20+r.Intn(40)) * time.Millisecond
			case 1:
				plans[i].cancel = time.Duration(r.Intn(30)) * time.Millisecond
				plans[i].timeout = 400 * time.Millisecond
			default:
				plans[i].timeout = 400 * time.Millisecond
			}
		}
		if lateFamily {
			for i := 0; i+1 < len(plans); i += 2 {
				k := []string{"offsets", "coord"}[r.Intn(2)]
				plans[i] = plan{kind: k, timeout: time.Duration(15+r.Intn(25)) * time.Millisecond}
				plans[i+1] = plan{kind: k, timeout: 600 * time.Millisecond}
				b.setScript(tagBase+g*10+i, "late")
			}
		}
		go func(g int) {
			defer wg.Done()
			for i, p := range plans {
				tag := tagBase + g*10 + i
				ctx, cancel := context.WithTimeout(context.Background(), p.timeout)
				if p.cancel > 0 {
					time.AfterFunc(p.cancel, cancel)
				}
				var req kafka.Request
				if p.kind == "emptyproduce" {
					// a produce request without records cannot be encoded (protocol.ErrNoRecord): nothing is written,
					// the pooled connection is kept
					req = &produce.Request{Acks: 1, Timeout: 1000, Topics: []produce.RequestTopic{{Topic: "t",
						Partitions: []produce.RequestPartition{{Partition: 0}}}}}
				} else if p.kind == "offsets" {
					req = &listoffsets.Request{Topics: []listoffsets.RequestTopic{{Topic: "t",
						Partitions: []listoffsets.RequestPartition{{Partition: 0, Timestamp: int64(tag)}}}}}
				} else {
					req = &findcoordinator.Request{Key: "g" + strconv.Itoa(tag)}
				}
				resp, err := tr.RoundTrip(ctx, addr, req)
				cancel()
				res := "err"
				if err == nil {
					switch m := resp.(type) {
					case *listoffsets.Response:
						if len(m.Topics) == 1 && len(m.Topics[0].Partitions) == 1 {
							res = fmt.Sprintf("ok:%d", m.Topics[0].Partitions[0].Offset)
						} else {
							res = "ok:malformed"
						}
					case *findcoordinator.Response:
						res = "ok:" + strings.TrimPrefix(m.ErrorMessage, "g")
					default:
						res = fmt.Sprintf("ok:%T", resp)
					}
				}
				mu.Lock()
				results = append(results, callRes{tag, res})
				if err != nil && (errors.Is(err, context.Canceled) || errors.Is(err, context.DeadlineExceeded)) {
					abandoned = append(abandoned, tag)
				}
				mu.Unlock()
			}
		}(g)
	}
	if closeMid {
		time.Sleep(time.Duration(1+r.Intn(20)) * time.Millisecond)
		tr.CloseIdleConnections()
	}
	wg.Wait()
	tr.CloseIdleConnections()
	time.Sleep(3 * time.Millisecond)
	b.mu.Lock()
	conns := append([]*tJournal(nil), b.conns...)
	b.mu.Unlock()
	for _, j := range conns {
		j.conn.Close() // unblocks exchanges whose callers gave up and whose response was dropped
	}
	time.Sleep(3 * time.Millisecond)
	evs := kafka.VerifStop()

	// link hook conn ids to broker connections
	connOf := map[string]int{}  // "#n" → broker conn index
	groupOf := map[string]int{} // "#g" → small group number
	recvd := map[string]int{}   // "#n" → number of requests of this conn matched with the broker's journal so far
	pendingRecv := map[string]int{}
	var es []string
	for _, t := range abandoned {
		es = append(es, fmt.Sprintf("A%d", t))
	}
	cid := func(a string) int {
		n, _ := strconv.Atoi(strings.TrimPrefix(a, "#"))
		return n
	}
	// the recorder names objects by address: a *conn allocated after another one was freed can get the same "#n".
	// Give every T.New a fresh name and rename the following events of that address accordingly.
	{
		cur := map[string]string{}
		fresh := 0
		for i := range evs {
			e := &evs[i]
			if !strings.HasPrefix(e.Kind, "T.") || e.Kind == "T.CloseIdle" || len(e.Args) == 0 {
				continue
			}
			if e.Kind == "T.New" {
				fresh++
				cur[e.Args[0]] = fmt.Sprintf("#%d", 1000+fresh)
			}
			if v, ok := cur[e.Args[0]]; ok {
				e.Args = append([]string{v}, e.Args[1:]...)
			}
		}
	}
	for _, e := range evs {
		if strings.HasPrefix(e.Kind, "T.") && e.Kind != "T.New" && e.Kind != "T.CloseIdle" {
			if _, known := connOf[e.Args[0]]; !known {
				continue // a run loop of an earlier scenario winding down
			}
		}
		switch e.Kind {
		case "T.New":
			k, _ := strconv.Atoi(strings.TrimPrefix(e.Args[2], "pipe-"))
			connOf[e.Args[0]] = k
			if _, ok := groupOf[e.Args[1]]; !ok {
				groupOf[e.Args[1]] = len(groupOf) + 1
			}
			es = append(es, fmt.Sprintf("N%d:%d:1", cid(e.Args[0]), groupOf[e.Args[1]]))
		case "T.Grab":
			es = append(es, fmt.Sprintf("G%d", cid(e.Args[0])))
		case "T.Recv":
			// the tag is that of the next request the broker received on this connection — unless the exchange ends
			// with ErrNoRecord (the request was never written): decided when T.Done arrives
			pendingRecv[e.Args[0]] = len(es)
			es = append(es, "")
		case "T.Done":
			o := "err"
			if e.Args[1] == "true" {
				o = "ok"
			} else if e.Args[2] == "true" {
				o = "keep"
			}
			if at, ok := pendingRecv[e.Args[0]]; ok {
				tag := 0
				if o != "keep" {
					k := recvd[e.Args[0]]
					recvd[e.Args[0]] = k + 1
					if j := conns[connOf[e.Args[0]]]; k < len(j.reqs) {
						tag = j.reqs[k]
					}
				}
				es[at] = fmt.Sprintf("R%d:%d", cid(e.Args[0]), tag)
				delete(pendingRecv, e.Args[0])
			}
			es = append(es, fmt.Sprintf("D%d:%s", cid(e.Args[0]), o))
		case "T.Release":
			a := 0
			if e.Args[1] == "true" {
				a = 1
			}
			es = append(es, fmt.Sprintf("L%d:%d", cid(e.Args[0]), a))
		case "T.Exit":
			es = append(es, fmt.Sprintf("X%d", cid(e.Args[0])))
		case "T.Remove":
			es = append(es, fmt.Sprintf("M%d", cid(e.Args[0])))
		case "T.CloseIdle":
			if _, ok := groupOf[e.Args[0]]; !ok {
				groupOf[e.Args[0]] = len(groupOf) + 1
			}
			es = append(es, fmt.Sprintf("C%d", groupOf[e.Args[0]]))
		}
	}
	for h, at := range pendingRecv {
		tag := 0
		k := recvd[h]
		if j := conns[connOf[h]]; k < len(j.reqs) {
			tag = j.reqs[k]
		}
		es[at] = fmt.Sprintf("R%d:%d", cid(h), tag)
	}
	var js []string
	for h, k := range connOf {
		j := conns[k]
		var fs []string
		for _, f := range j.frames {
			fs = append(fs, fmt.Sprintf("%d:%d", f.id, f.tag))
		}
		js = append(js, fmt.Sprintf("%d=%s", cid(h), strings.Join(fs, ";")))
	}
	sort.Strings(js)
	sort.Slice(results, func(i, j int) bool { return results[i].tag < results[j].tag })
	var rs, tags []string
	for _, c := range results {
		rs = append(rs, fmt.Sprintf("%d:%s", c.tag, c.res))
		tags = append(tags, strconv.Itoa(c.tag))
	}
	jl := "-"
	if len(js) > 0 {
		jl = strings.Join(js, "|")
	}
	fmt.Fprintf(out, "tconn %s %s %s\t%s\n", jl, joinOr(es), joinOr(tags), joinOr(rs))
}

func transportScenarios(r *rand.Rand, thorough bool) {
	n := 60
	if thorough {
		n = 600
	}
	for i := 0; i < n; i++ {
		// a scenario that does not end (e.g. one pooled connection handed to two requesters) must cost seconds, not the
		// driver's whole time limit, and must be on record: every call of a scenario has a deadline of at most 600 ms
		fin := make(chan struct{})
		go func(i int) {
			select {
			case <-fin:
			case <-time.After(20 * time.Second):
				fmt.Fprintf(out, "lv transport-scenario-%d 600\thung:after-20s\n", i)
				out.Flush()
				fmt.Fprintf(os.Stderr, "c06: transport scenario %d did not finish within 20s\n", i)
				os.Exit(3)
			}
		}(i)
		transportScenario(r, thorough, i%3 == 0)
		out.Flush()
		close(fin)
	}
}
