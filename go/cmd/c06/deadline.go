package main

// deadline.go — op `dl`: the read deadline of the socket belongs to the operation that reads (Model/ConnDeadline.lean).
//
// Each case runs some prior operation on a fresh Conn over net.Pipe, then starts a read (ReadLastOffset) with NO read
// deadline whose answer takes 250 ms, and while it is blocked arms a short WRITE deadline (SetWriteDeadline(+40 ms)), as
// an application does just before a write.  The read must not be ended by that deadline.  The line carries the schedule
// as a ConnDeadline script; the oracle computes what governs the final read.
//
//	dl <case> <script> \t ok | timeout | err:<text>

import (
	"bufio"
	"encoding/binary"
	"fmt"
	"io"
	"net"
	"strings"
	"time"

	kafka "github.com/segmentio/kafka-go"
)

// dlBroker answers ApiVersions at once and every ListOffsets after the delay last sent on the channel
func dlBroker(sv net.Conn, brokerDelay chan time.Duration) {
	r := bufio.NewReader(sv)
	d := time.Duration(0)
	for {
		var hdr [4]byte
		if _, err := io.ReadFull(r, hdr[:]); err != nil {
			return
		}
		body := make([]byte, binary.BigEndian.Uint32(hdr[:]))
		if _, err := io.ReadFull(r, body); err != nil {
			return
		}
		select {
		case d = <-brokerDelay:
		default:
		}
		key := binary.BigEndian.Uint16(body[0:2])
		out := append([]byte(nil), body[4:8]...)
		switch key {
		case 18:
			out = append(out, be16(0)...)
			out = append(out, be32(1)...)
			out = append(out, be16(2)...)
			out = append(out, be16(1)...)
			out = append(out, be16(1)...)
		case 2:
			time.Sleep(d)
			out = append(out, be32(1)...)
			out = append(out, kstr("t")...)
			out = append(out, be32(1)...)
			out = append(out, be32(0)...)
			out = append(out, be16(0)...)
			out = append(out, be64(^uint64(0))...)
			out = append(out, be64(42)...)
		default:
			return
		}
		if _, err := sv.Write(append(be32(uint32(len(out))), out...)); err != nil {
			return
		}
	}
}

func deadlineCases() {
	type dlCase struct {
		name, script string
		prior        func(conn *kafka.Conn) error
	}
	cases := []dlCase{
		{"fresh", "Ar,Sw40", func(*kafka.Conn) error { return nil }},
		// no read deadline was ever set: ApiVersions runs under the write deadline object
		{"apiversions-under-write-deadline", "Sw5000,Aw,R,Ar,Sw40", func(c *kafka.Conn) error {
			c.SetWriteDeadline(time.Now().Add(5 * time.Second))
			_, err := c.ApiVersions()
			return err
		}},
		{"apiversions-under-read-deadline", "Sr5000,Ar,R,Sr0,Ar,Sw40", func(c *kafka.Conn) error {
			c.SetReadDeadline(time.Now().Add(5 * time.Second))
			_, err := c.ApiVersions()
			c.SetReadDeadline(time.Time{})
			return err
		}},
		{"apiversions-twice", "Sw5000,Aw,R,Aw,R,Ar,Sw40", func(c *kafka.Conn) error {
			c.SetWriteDeadline(time.Now().Add(5 * time.Second))
			if _, err := c.ApiVersions(); err != nil {
				return err
			}
			_, err := c.ApiVersions()
			return err
		}},
		{"after-a-read-operation", "Sr5000,Ar,R,Sr0,Ar,Sw40", func(c *kafka.Conn) error {
			c.SetReadDeadline(time.Now().Add(5 * time.Second))
			_, err := c.ReadFirstOffset()
			c.SetReadDeadline(time.Time{})
			return err
		}},
	}
	for _, cs := range cases {
		cl, sv := net.Pipe()
		brokerDelay := make(chan time.Duration, 1)
		go dlBroker(sv, brokerDelay)
		conn := kafka.NewConnWith(cl, kafka.ConnConfig{ClientID: "c06-dl", Topic: "t", Partition: 0})
		res := ""
		if err := cs.prior(conn); err != nil {
			res = "err:prior:" + strings.ReplaceAll(err.Error(), " ", "_")
		} else {
			brokerDelay <- 250 * time.Millisecond
			done := make(chan error, 1)
			go func() {
				_, err := conn.ReadLastOffset()
				done <- err
			}()
			time.Sleep(30 * time.Millisecond)
			conn.SetWriteDeadline(time.Now().Add(40 * time.Millisecond))
			select {
			case err := <-done:
				switch {
				case err == nil:
					res = "ok"
				case isTimeoutErr(err):
					res = "timeout"
				default:
					res = "err:" + strings.ReplaceAll(err.Error(), " ", "_")
				}
			case <-time.After(5 * time.Second):
				res = "err:hung"
			}
		}
		conn.Close()
		sv.Close()
		fmt.Fprintf(out, "dl %s %s\t%s\n", cs.name, cs.script, res)
	}
}

func isTimeoutErr(err error) bool {
	type timeout interface{ Timeout() bool }
	for e := err; e != nil; {
		if t, ok := e.(timeout); ok && t.Timeout() {
			return true
		}
		u, ok := e.(interface{ Unwrap() error })
		if !ok {
			break
		}
		e = u.Unwrap()
	}
	return strings.Contains(err.Error(), "i/o timeout")
}

// strandedCase — op `lv`: two callers with a deadline wait on one Conn; the broker answers with ONE frame that belongs to
// neither (an id nobody used) and nothing else.  Both calls must come back (with an error) by their deadline; the case
// gives them five times the deadline.
//
//	lv <case> <deadline ms> \t returned:<n>/2 | hung:<n>/2
func strandedCase() {
	cl, sv := net.Pipe()
	go func() {
		r := bufio.NewReader(sv)
		n := 0
		for {
			var hdr [4]byte
			if _, err := io.ReadFull(r, hdr[:]); err != nil {
				return
			}
			body := make([]byte, binary.BigEndian.Uint32(hdr[:]))
			if _, err := io.ReadFull(r, body); err != nil {
				return
			}
			n++
			if n == 2 {
				stray := append(be32(0x7000000), 1, 2, 3, 4, 5, 6, 7, 8)
				sv.Write(append(be32(uint32(len(stray))), stray...))
			}
		}
	}()
	conn := kafka.NewConnWith(cl, kafka.ConnConfig{ClientID: "c06-lv", Topic: "t", Partition: 0})
	const dl = 150 * time.Millisecond
	conn.SetDeadline(time.Now().Add(dl))
	done := make(chan error, 2)
	for i := 0; i < 2; i++ {
		go func() {
			_, err := conn.ReadLastOffset()
			done <- err
		}()
	}
	returned := 0
	timer := time.After(5 * dl)
wait:
	for returned < 2 {
		select {
		case <-done:
			returned++
		case <-timer:
			break wait
		}
	}
	conn.Close()
	sv.Close()
	res := fmt.Sprintf("returned:%d/2", returned)
	if returned < 2 {
		res = fmt.Sprintf("hung:%d/2", 2-returned)
	}
	fmt.Fprintf(out, "lv stray-frame-two-waiters %d\t%s\n", dl.Milliseconds(), res)
	out.Flush()
}
