package main

// acks0.go — op `a0`: a request that has no response (produce with RequiredAcks = 0) on a pooled connection of a
// Transport, followed by a tagged ListOffsets to the same broker.
//
//	whole : a small produce; it is written whole, nothing is read, the connection goes back to the pool and serves the
//	        next request.
//	cut   : a 4 MiB produce under a 200 ms deadline while the broker does not read: the write fails part-way.  The
//	        exchange has FAILED: the connection, left in the middle of a frame, must not go back to the pool, and the call
//	        must not be reported as completed.  (The broker resumes reading only after the produce call has returned — no
//	        wall-clock assumption besides the 200 ms deadline itself.)
//
// The broker notes whether it received the produce frame whole.
//
//	a0 <whole|cut> <tag> \t P:<sent:1|sent:0|err>,Q:<ok:<offset>|err>
//
// `sent:<c>`: the produce call returned nil; c = the broker got the frame whole.  Model/TransportConn: `done errKeep`
// (nothing is due: the connection is kept) for a request written whole, `done err` (→ exit) for a failed exchange.

import (
	"context"
	"encoding/binary"
	"fmt"
	"io"
	"net"
	"sync"
	"time"

	kafka "github.com/segmentio/kafka-go"
	"github.com/segmentio/kafka-go/protocol"
	"github.com/segmentio/kafka-go/protocol/apiversions"
	"github.com/segmentio/kafka-go/protocol/listoffsets"
	"github.com/segmentio/kafka-go/protocol/metadata"
	"github.com/segmentio/kafka-go/protocol/produce"

	"kvharness/internal/muxfake"
)

func acksZeroCases() {
	for ci, kind := range []string{"whole", "cut"} {
		tag := 91000 + ci
		var mu sync.Mutex
		produceWhole := -1 // -1 not seen, 0 cut, 1 whole
		resume := make(chan struct{})
		dial := func(ctx context.Context, network, address string) (net.Conn, error) {
			cl, sv, err := socketpair()
			if err != nil {
				return nil, err
			}
			go func() {
				defer sv.Close()
				for {
					var hdr [4]byte
					if _, err := io.ReadFull(sv, hdr[:]); err != nil {
						return
					}
					size := int(binary.BigEndian.Uint32(hdr[:]))
					if size > 1<<20 {
						// the big produce: do not read until the caller has given up (its write is stuck in the socket buffers)
						<-resume
					}
					body := make([]byte, size)
					sv.SetReadDeadline(time.Now().Add(2 * time.Second))
					n, err := io.ReadFull(sv, body)
					sv.SetReadDeadline(time.Time{})
					frame := body[:n] // muxfake frames are payloads, without the size prefix
					h, herr := muxfake.ParseHeader(frame)
					if herr == nil && h.Key == 0 {
						mu.Lock()
						if err == nil {
							produceWhole = 1
						} else {
							produceWhole = 0
						}
						mu.Unlock()
					}
					if err != nil {
						return
					}
					if herr != nil {
						return
					}
					var res protocol.Message
					switch h.Key {
					case 18:
						res = &apiversions.Response{ApiKeys: []apiversions.ApiKeyResponse{{ApiKey: 18, MaxVersion: 0}, {ApiKey: 3, MinVersion: 1, MaxVersion: 1},
							{ApiKey: 2, MinVersion: 1, MaxVersion: 1}, {ApiKey: 0, MinVersion: 3, MaxVersion: 7}}}
					case 3:
						res = &metadata.Response{Brokers: []metadata.ResponseBroker{{NodeID: 1, Host: "broker1", Port: 9092}}, ControllerID: 1,
							Topics: []metadata.ResponseTopic{{Name: "t", Partitions: []metadata.ResponsePartition{
								{PartitionIndex: 0, LeaderID: 1, ReplicaNodes: []int32{1}, IsrNodes: []int32{1}}}}}}
					case 2:
						msg, derr := muxfake.Decode(frame)
						m, ok := msg.(*listoffsets.Request)
						if derr != nil || !ok || len(m.Topics) != 1 || len(m.Topics[0].Partitions) != 1 {
							return
						}
						ts := m.Topics[0].Partitions[0].Timestamp
						res = &listoffsets.Response{Topics: []listoffsets.ResponseTopic{{Topic: "t",
							Partitions: []listoffsets.ResponsePartition{{Partition: 0, Timestamp: ts, Offset: ts}}}}}
					case 0:
						continue // RequiredAcks = 0: no response
					default:
						return
					}
					p, err := muxfake.Encode(h.Ver, h.Corr, res)
					if err != nil {
						return
					}
					if _, err := sv.Write(p); err != nil {
						return
					}
				}
			}()
			return cl, nil
		}
		tr := &kafka.Transport{Dial: dial, MetadataTTL: time.Hour, ClientID: "c06-a0"}
		addr := kafka.TCP("broker1:9092")
		size := 100
		if kind == "cut" {
			size = 4 << 20
		}
		value := make([]byte, size)
		pctx, pcancel := context.WithTimeout(context.Background(), 200*time.Millisecond)
		if kind == "whole" {
			pcancel()
			pctx, pcancel = context.WithTimeout(context.Background(), 3*time.Second)
		}
		// warm-up outside the deadline of the produce: the pool becomes ready
		wctx, wcancel := context.WithTimeout(context.Background(), 5*time.Second)
		_, werr := tr.RoundTrip(wctx, addr, &metadata.Request{TopicNames: []string{"t"}})
		wcancel()
		if werr != nil {
			pcancel()
			fmt.Fprintf(out, "a0 %s %d\tP:err:warmup,Q:err\n", kind, tag)
			continue
		}
		if kind == "cut" {
			pcancel()
			pctx, pcancel = context.WithTimeout(context.Background(), 200*time.Millisecond)
		}
		_, perr := tr.RoundTrip(pctx, addr, &produce.Request{Acks: 0, Timeout: 1000, Topics: []produce.RequestTopic{{Topic: "t",
			Partitions: []produce.RequestPartition{{Partition: 0, RecordSet: protocol.RecordSet{Version: 2,
				Records: protocol.NewRecordReader(protocol.Record{Time: time.UnixMilli(1000), Value: protocol.NewBytes(value)})}}}}}})
		pcancel()
		close(resume)
		// the next request to the same broker
		qctx, qcancel := context.WithTimeout(context.Background(), 2500*time.Millisecond)
		qr, qerr := tr.RoundTrip(qctx, addr, &listoffsets.Request{ReplicaID: -1, Topics: []listoffsets.RequestTopic{{Topic: "t",
			Partitions: []listoffsets.RequestPartition{{Partition: 0, Timestamp: int64(tag)}}}}})
		qcancel()
		// let the broker finish with the produce frame (it reads it whole, or its read ends)
		deadline := time.Now().Add(3 * time.Second)
		for time.Now().Before(deadline) {
			mu.Lock()
			seen := produceWhole
			mu.Unlock()
			if seen >= 0 {
				break
			}
			time.Sleep(5 * time.Millisecond)
		}
		mu.Lock()
		whole := produceWhole
		mu.Unlock()
		p := "err"
		if perr == nil {
			p = fmt.Sprintf("sent:%d", b2i(whole == 1))
		}
		q := "err"
		if qerr == nil {
			if lr, ok := qr.(*listoffsets.Response); ok && len(lr.Topics) == 1 && len(lr.Topics[0].Partitions) == 1 {
				q = fmt.Sprintf("ok:%d", lr.Topics[0].Partitions[0].Offset)
			}
		}
		tr.CloseIdleConnections()
		fmt.Fprintf(out, "a0 %s %d\tP:%s,Q:%s\n", kind, tag, p, q)
	}
}

func b2i(b bool) int {
	if b {
		return 1
	}
	return 0
}
