package main

import (
	"bufio"
	"encoding/binary"
	"fmt"
	"math/rand"
	"net"
	"os"
	"runtime"
	"sync"
	"sync/atomic"
	"syscall"
	"time"

	kafka "github.com/segmentio/kafka-go"

	"kvharness/internal/muxfake"
)

// socketpair returns the two ends of a kernel-buffered stream connection (unlike net.Pipe, a write completes
// without waiting for the reader, so several requests and responses can be in the buffers at once).
func socketpair() (net.Conn, net.Conn, error) {
	fds, err := syscall.Socketpair(syscall.AF_UNIX, syscall.SOCK_STREAM, 0)
	if err != nil {
		return nil, nil, err
	}
	mk := func(fd int) (net.Conn, error) {
		f := os.NewFile(uintptr(fd), "socketpair")
		defer f.Close()
		return net.FileConn(f)
	}
	a, err := mk(fds[0])
	if err != nil {
		return nil, nil, err
	}
	b, err := mk(fds[1])
	if err != nil {
		a.Close()
		return nil, nil, err
	}
	return a, b, nil
}

// stressScenario: nG goroutines share one Conn over a buffered connection and issue `rounds` tagged
// ReadOffset calls each; every round starts on a spin barrier so that the calls enter doRequest at the same
// instant.  The broker answers every request at once, in arrival order, echoing the correlation id.
func stressScenario(r *rand.Rand, nG, rounds int) {
	cl, sv, err := socketpair()
	if err != nil {
		fmt.Fprintf(os.Stderr, "c06: socketpair: %v\n", err)
		return
	}
	conn := kafka.NewConnWith(cl, kafka.ConnConfig{ClientID: "c06", Topic: "t", Partition: 0})
	var bmu sync.Mutex
	var sent []sentFrame
	var reqs []muxReq
	done := make(chan struct{})
	go func() {
		defer close(done)
		defer sv.Close()
		rd := bufio.NewReaderSize(sv, 1<<16)
		for {
			frame, err := muxfake.ReadFrame(rd)
			if err != nil {
				return
			}
			h, err := muxfake.ParseHeader(frame)
			if err != nil || len(frame) < 8 {
				return
			}
			q := muxReq{id: h.Corr, key: h.Key, ver: h.Ver}
			if h.Key == 2 {
				// ListOffsets v1: … partition(4) timestamp(8) are the last 12 bytes
				q.tag = int(int64(binary.BigEndian.Uint64(frame[len(frame)-8:])))
			}
			out := response(q, q.id, 0)
			if out == nil {
				return
			}
			bmu.Lock()
			q.seq = len(reqs)
			reqs = append(reqs, q)
			sent = append(sent, sentFrame{u32(q.id), q.tag})
			bmu.Unlock()
			sv.SetWriteDeadline(time.Now().Add(5 * time.Second))
			if _, err := sv.Write(out); err != nil {
				return
			}
		}
	}()

	var mu sync.Mutex
	curTag := map[int64]int{}
	writeTag := map[int]int{}
	kafka.VerifSetSink(func(e kafka.VerifEvent) {
		if e.Kind == "C.Write" {
			g := goid()
			mu.Lock()
			writeTag[e.Seq] = curTag[g]
			mu.Unlock()
		}
	})
	kafka.VerifStart()
	conn.SetDeadline(time.Now().Add(20 * time.Second))
	var arrived int64
	var wg sync.WaitGroup
	results := make([]callRes, 0, nG*rounds)
	tagBase := 100000 + r.Intn(1000)*100000
	for g := 0; g < nG; g++ {
		wg.Add(1)
		go func(g int) {
			defer wg.Done()
			me := goid()
			local := make([]callRes, 0, rounds)
			for k := 0; k < rounds; k++ {
				tag := tagBase + k*nG + g
				mu.Lock()
				curTag[me] = tag
				mu.Unlock()
				// spin barrier: all callers leave together
				atomic.AddInt64(&arrived, 1)
				for spins := 0; atomic.LoadInt64(&arrived) < int64(nG*(k+1)); spins++ {
					if spins%2000 == 1999 {
						runtime.Gosched()
					}
				}
				off, err := conn.ReadOffset(time.UnixMilli(int64(tag)))
				if err != nil {
					local = append(local, callRes{tag, errRes(err)})
					// keep the barrier consistent for the others
					atomic.AddInt64(&arrived, int64(rounds-k-1))
					break
				}
				local = append(local, callRes{tag, fmt.Sprintf("ok:%d", off)})
			}
			mu.Lock()
			results = append(results, local...)
			mu.Unlock()
		}(g)
	}
	wg.Wait()
	evs := kafka.VerifStop()
	kafka.VerifSetSink(nil)
	conn.Close()
	<-done
	bmu.Lock()
	defer bmu.Unlock()
	emitMux(sent, reqs, evs, writeTag, results)
}

func stressScenarios(r *rand.Rand, thorough bool) {
	n, rounds := 6, 60
	if thorough {
		n, rounds = 20, 400
	}
	for i := 0; i < n; i++ {
		fin := make(chan struct{})
		go func() {
			select {
			case <-fin:
			case <-time.After(60 * time.Second):
				out.Flush()
				fmt.Fprintf(os.Stderr, "c06: stress scenario %d did not finish within 60s\n", i)
				os.Exit(3)
			}
		}()
		stressScenario(r, 8, rounds)
		out.Flush()
		close(fin)
	}
}
