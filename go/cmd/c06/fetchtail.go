package main

// fetchtail.go — op `f0`: a Fetch through a Transport whose record set ends with a cut-off tail (Kafka cuts the last batch
// of a fetch response at MaxBytes: a partial trailing batch is NORMAL), followed by a tagged ListOffsets to the same
// broker.  The bytes of the tail belong to the fetch response: `protocol.RecordSet.ReadFrom` must skip them
// (`d.discardAll()`), the pooled connection goes back clean, and the next request gets its own answer.  Tails of
// 1 … 16 bytes are shorter than a batch header and take a branch of their own (seed C06-m11 left them unread there: the
// next RoundTrip read them as the beginning of its response).  The 8-byte tail spells the header of a frame for the
// NEXT correlation id.
//
//	f0 <tail bytes> <tag> \t F:<ok:<records>|err>,Q:<ok:<offset>|err>
//
// Model/TransportConn: `new, recv F, done ok, release, grab, recv Q, done ok` — the frame of F is consumed whole, so
// Q's frame is at the head for Q.

import (
	"bytes"
	"context"
	"encoding/binary"
	"fmt"
	"io"
	"net"
	"time"

	kafka "github.com/segmentio/kafka-go"
	"github.com/segmentio/kafka-go/protocol"
	"github.com/segmentio/kafka-go/protocol/apiversions"
	"github.com/segmentio/kafka-go/protocol/fetch"
	"github.com/segmentio/kafka-go/protocol/listoffsets"
	"github.com/segmentio/kafka-go/protocol/metadata"

	"kvharness/internal/muxfake"
)

func fetchTailCases(thorough bool) {
	tails := []int{0, 1, 4, 8, 12, 16, 17, 30}
	if thorough {
		tails = []int{0, 1, 2, 3, 4, 5, 6, 7, 8, 9, 10, 11, 12, 13, 14, 15, 16, 17, 20, 30, 60, 61, 62}
	}
	for ci, k := range tails {
		tag := 92000 + ci
		dial := func(ctx context.Context, network, address string) (net.Conn, error) {
			cl, sv, err := socketpair()
			if err != nil {
				return nil, err
			}
			go func() {
				defer sv.Close()
				for {
					frame, err := muxfake.ReadFrame(sv)
					if err != nil {
						return
					}
					h, err := muxfake.ParseHeader(frame)
					if err != nil {
						return
					}
					var res protocol.Message
					switch h.Key {
					case 18:
						res = &apiversions.Response{ApiKeys: []apiversions.ApiKeyResponse{{ApiKey: 18, MaxVersion: 0}, {ApiKey: 3, MinVersion: 1, MaxVersion: 1},
							{ApiKey: 2, MinVersion: 1, MaxVersion: 1}, {ApiKey: 1, MinVersion: 10, MaxVersion: 10}}}
					case 3:
						res = &metadata.Response{Brokers: []metadata.ResponseBroker{{NodeID: 1, Host: "broker1", Port: 9092}}, ControllerID: 1,
							Topics: []metadata.ResponseTopic{{Name: "t", Partitions: []metadata.ResponsePartition{
								{PartitionIndex: 0, LeaderID: 1, ReplicaNodes: []int32{1}, IsrNodes: []int32{1}}}}}}
					case 2:
						msg, derr := muxfake.Decode(frame)
						m, ok := msg.(*listoffsets.Request)
						if derr != nil || !ok || len(m.Topics) != 1 || len(m.Topics[0].Partitions) != 1 {
							return
						}
						ts := m.Topics[0].Partitions[0].Timestamp
						res = &listoffsets.Response{Topics: []listoffsets.ResponseTopic{{Topic: "t",
							Partitions: []listoffsets.ResponsePartition{{Partition: 0, Timestamp: ts, Offset: ts}}}}}
					case 1:
						// fetch v10 by hand: two whole record batches, then the first k bytes of a third one
						set := recordSetBytes(2, 0, false, [][]byte{[]byte("a"), []byte("bb")})
						more := recordSetBytes(2, 2, false, [][]byte{bytes.Repeat([]byte("c"), 80)})
						tail := append([]byte(nil), more[:k]...)
						if k == 8 {
							// spell the header of a frame for the next correlation id
							tail = append(be32(40), be32(uint32(h.Corr+1))...)
						}
						set = append(set, tail...)
						body := append(be32(uint32(h.Corr)), fetchHead(10, 0, 100, len(set))...)
						body = append(body, set...)
						var out bytes.Buffer
						binary.Write(&out, binary.BigEndian, uint32(len(body)))
						out.Write(body)
						if _, err := sv.Write(out.Bytes()); err != nil {
							return
						}
						continue
					default:
						return
					}
					p, err := muxfake.Encode(h.Ver, h.Corr, res)
					if err != nil {
						return
					}
					if _, err := sv.Write(p); err != nil {
						return
					}
				}
			}()
			return cl, nil
		}
		tr := &kafka.Transport{Dial: dial, MetadataTTL: time.Hour, ClientID: "c06-f0"}
		addr := kafka.TCP("broker1:9092")
		ctx, cancel := context.WithTimeout(context.Background(), 4*time.Second)
		f := "err"
		q := "err"
		if _, werr := tr.RoundTrip(ctx, addr, &metadata.Request{TopicNames: []string{"t"}}); werr == nil {
			fr, ferr := tr.RoundTrip(ctx, addr, &fetch.Request{ReplicaID: -1, MaxWaitTime: 100, MinBytes: 1, MaxBytes: 1 << 20,
				Topics: []fetch.RequestTopic{{Topic: "t", Partitions: []fetch.RequestPartition{{Partition: 0, FetchOffset: 0, PartitionMaxBytes: 1 << 20}}}}})
			if ferr == nil {
				n := -1
				if r, ok := fr.(*fetch.Response); ok && len(r.Topics) == 1 && len(r.Topics[0].Partitions) == 1 {
					n = 0
					rs := r.Topics[0].Partitions[0].RecordSet.Records
					for rs != nil {
						rec, err := rs.ReadRecord()
						if err != nil {
							break
						}
						if rec.Value != nil {
							io.Copy(io.Discard, rec.Value)
							rec.Value.Close()
						}
						if rec.Key != nil {
							rec.Key.Close()
						}
						n++
					}
				}
				f = fmt.Sprintf("ok:%d", n)
			}
			qctx, qcancel := context.WithTimeout(context.Background(), 1500*time.Millisecond)
			qr, qerr := tr.RoundTrip(qctx, addr, &listoffsets.Request{ReplicaID: -1, Topics: []listoffsets.RequestTopic{{Topic: "t",
				Partitions: []listoffsets.RequestPartition{{Partition: 0, Timestamp: int64(tag)}}}}})
			qcancel()
			if qerr == nil {
				if lr, ok := qr.(*listoffsets.Response); ok && len(lr.Topics) == 1 && len(lr.Topics[0].Partitions) == 1 {
					q = fmt.Sprintf("ok:%d", lr.Topics[0].Partitions[0].Offset)
				}
			}
		}
		cancel()
		tr.CloseIdleConnections()
		fmt.Fprintf(out, "f0 %d %d\tF:%s,Q:%s\n", k, tag, f, q)
	}
}
