package main

// idwrap.go — protocol.Conn across the correlation id wrap.  The pooled connection of a Transport is a protocol.Conn
// whose RoundTrip numbers requests with `atomic.AddInt32(&c.idgen, +1)` and protocol.RoundTrip compares the id of the
// response with it.  Each case presets the generator just below 2^31 or 2^32 (VerifSetIDGen), runs 6 ListOffsets round
// trips against a fake broker that echoes the id — in one variant it answers ONE request with the id 2^31 (resp. 1)
// further, which looks the same to anybody who compares ids in fewer than 32 bits or forgets the sign — and emits the
// run as a `tconn` line for Model/TransportConn (conn 1, idgen0 = the preset, as an unsigned 32-bit number).

import (
	"fmt"
	"net"
	"strings"
	"time"

	"github.com/segmentio/kafka-go/protocol"
	"github.com/segmentio/kafka-go/protocol/listoffsets"

	"kvharness/internal/muxfake"
)

func idWrapCases() {
	type wc struct {
		start   int32
		wrongAt int   // index of the request answered with a wrong id (-1: none)
		delta   int32 // what is added to the id of that answer
	}
	var cases []wc
	for _, st := range []int32{1<<31 - 3, -3, 1<<31 - 1, -1, -1 << 31, 0} {
		cases = append(cases, wc{st, -1, 0}, wc{st, 2, -1 << 31}, wc{st, 3, 1})
	}
	for ci, c := range cases {
		cl, sv := net.Pipe()
		var sent []string
		go func() {
			n := 0
			for {
				frame, err := muxfake.ReadFrame(sv)
				if err != nil {
					return
				}
				h, err := muxfake.ParseHeader(frame)
				if err != nil {
					return
				}
				msg, _ := muxfake.Decode(frame)
				m, ok := msg.(*listoffsets.Request)
				if !ok {
					return
				}
				tag := int(m.Topics[0].Partitions[0].Timestamp)
				id := h.Corr
				if n == c.wrongAt {
					id += c.delta
				}
				n++
				p, err := muxfake.Encode(h.Ver, id, &listoffsets.Response{Topics: []listoffsets.ResponseTopic{{Topic: "t",
					Partitions: []listoffsets.ResponsePartition{{Partition: 0, Timestamp: int64(tag), Offset: int64(tag)}}}}})
				if err != nil {
					return
				}
				sent = append(sent, fmt.Sprintf("%d:%d", u32(id), tag))
				if _, err := sv.Write(p); err != nil {
					return
				}
			}
		}()
		pc := protocol.NewConn(cl, "c06-idw")
		pc.SetVersions(map[protocol.ApiKey]int16{protocol.ListOffsets: 1})
		pc.VerifSetIDGen(c.start)
		pc.SetDeadline(time.Now().Add(3 * time.Second))
		evs := []string{fmt.Sprintf("N1:1:%d", u32(c.start))}
		var tags, results []string
		for i := 0; i < 6; i++ {
			tag := 70000 + ci*10 + i
			tags = append(tags, fmt.Sprint(tag))
			if i > 0 {
				evs = append(evs, "G1")
			}
			evs = append(evs, fmt.Sprintf("R1:%d", tag))
			res, err := pc.RoundTrip(&listoffsets.Request{ReplicaID: -1, Topics: []listoffsets.RequestTopic{{Topic: "t",
				Partitions: []listoffsets.RequestPartition{{Partition: 0, Timestamp: int64(tag)}}}}})
			if err != nil {
				// as in transport.go (*conn).run: a failed exchange ends the connection
				evs = append(evs, "D1:err", "X1")
				results = append(results, fmt.Sprintf("%d:err", tag))
				for j := i + 1; j < 6; j++ {
					t := 70000 + ci*10 + j
					tags = append(tags, fmt.Sprint(t))
					results = append(results, fmt.Sprintf("%d:err", t))
				}
				break
			}
			off := int64(-1)
			if r, ok := res.(*listoffsets.Response); ok && len(r.Topics) == 1 && len(r.Topics[0].Partitions) == 1 {
				off = r.Topics[0].Partitions[0].Offset
			}
			evs = append(evs, "D1:ok", "L1:1")
			results = append(results, fmt.Sprintf("%d:ok:%d", tag, off))
		}
		pc.Close()
		sv.Close()
		fmt.Fprintf(out, "tconn 1=%s %s %s\t%s\n", strings.Join(sent, ";"), strings.Join(evs, ","), strings.Join(tags, ","), strings.Join(results, ","))
	}
}
