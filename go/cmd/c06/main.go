// Driver for property C06: runs many goroutines against ONE kafka.Conn (and, in transport.go of this
// package, against one kafka.Transport) whose peer is an in-process fake broker over net.Pipe that answers
// payload-tagged requests in scripted orders, with delays, drops, duplicates, foreign correlation ids,
// error codes, slow or truncated bodies and connection drops.  Every request carries a tag only that call
// uses; every response carries a tag derived from the request it answers, so "received someone else's
// response" is visible at the API.  The C.* / T.* hook events are recorded and printed with the frames the
// broker sent and the result each call observed:
//
//	mux <stream> <events>\t<results>
//	tconn <per-connection journals> <events>\t<results>
//
// The oracle replays the events through Model/ConnMux.lean / Model/TransportConn.lean (trace acceptance),
// derives each call's result from the model state and evaluates the tag-equality monitor on the
// implementation's results.
package main

import (
	"bufio"
	"bytes"
	"compress/gzip"
	"encoding/binary"
	"errors"
	"fmt"
	"io"
	"math/rand"
	"net"
	"os"
	"runtime"
	"sort"
	"strconv"
	"strings"
	"sync"
	"time"

	kafka "github.com/segmentio/kafka-go"
	"github.com/segmentio/kafka-go/protocol"
	"github.com/segmentio/kafka-go/protocol/apiversions"
	"github.com/segmentio/kafka-go/protocol/fetch"
	"github.com/segmentio/kafka-go/protocol/listoffsets"
	"github.com/segmentio/kafka-go/protocol/metadata"
	"github.com/segmentio/kafka-go/protocol/produce"

	"kvharness/internal/gen"
	"kvharness/internal/muxfake"
)

var out = bufio.NewWriter(os.Stdout)

func u32(id int32) uint32 { return uint32(id) }

// goid returns the current goroutine's id (used only to attribute hook events to the harness call in flight).
func goid() int64 {
	var buf [64]byte
	n := runtime.Stack(buf[:], false)
	f := strings.Fields(string(buf[:n]))
	if len(f) < 2 {
		return -1
	}
	id, _ := strconv.ParseInt(f[1], 10, 64)
	return id
}

// ---------------------------------------------------------------- fake broker for one Conn

type fault string

const (
	fNone     fault = ""
	fDrop     fault = "drop"     // never answer
	fDup      fault = "dup"      // answer twice
	fBogus    fault = "bogus"    // a frame with an id nobody asked for is sent first
	fKafkaErr fault = "kafkaerr" // error code in the body (frame well formed)
	fSlowBody fault = "slowbody" // header, pause, body
	fTrunc    fault = "trunc"    // body cut short, then the broker closes
	fClose    fault = "close"    // the broker closes instead of answering
	fTail     fault = "tail"     // the frame carries, after a complete body, bytes that spell a frame for the next id
	fStall    fault = "stall"    // the broker stalls in the MIDDLE of the body (after k bytes) past the caller's deadline, then goes on
)

type muxReq struct {
	id   int32
	key  int16
	ver  int16
	tag  int
	off  int64 // fetch offset
	seq  int   // arrival index
	gz   bool  // fetch: answer with a gzip-compressed batch followed by more bytes inside the same message set
	// fetch, "tail" form: two messages, the value of the last one ends in bytes that spell a frame for the next id
	tail     bool
	keyed    bool
	filler   int // bytes of filler in the last value (when the response is not cut to size by `limit`)
	limit    int // PartitionMaxBytes of the request
	oversize bool // make the message set exactly `limit` bytes + the embedded frame (KIP-74: first message returned whole)
	fetchVer int16 // ApiVersions: the fetch version to advertise
}

type sentFrame struct {
	id  uint32
	tag int
}

type muxBroker struct {
	conn    net.Conn
	mu      sync.Mutex
	reqs    []muxReq
	sent    []sentFrame
	pending chan muxReq
	done    chan struct{}
	// script
	batch  int
	order  string
	faults map[int]fault
	wr      *rand.Rand // used by the sending goroutine only
	chunked bool // every write reaches the client in several pieces cut at random places
	avTail bool // the ApiVersions answer carries, after the list of versions, bytes that spell a frame for the next id
	gap    time.Duration
	pause  time.Duration
	r      *rand.Rand
	stallK   int
	stallFor time.Duration
	tailForm bool  // fetch responses in the "tail" form (see tailSet)
	keyed    bool
	oversize bool
	filler   int
	fetchVer int16
	rr       *rand.Rand // readLoop's own source (b.r belongs to sendLoop)
	gzPct    int // per cent of fetch requests answered with the compressed form
}

func (b *muxBroker) readLoop() {
	defer close(b.pending)
	for {
		frame, err := muxfake.ReadFrame(b.conn)
		if err != nil {
			return
		}
		h, err := muxfake.ParseHeader(frame)
		if err != nil {
			return
		}
		q := muxReq{id: h.Corr, key: h.Key, ver: h.Ver, fetchVer: b.fetchVer}
		if msg, err := muxfake.Decode(frame); err == nil {
			switch m := msg.(type) {
			case *listoffsets.Request:
				if len(m.Topics) == 1 && len(m.Topics[0].Partitions) == 1 {
					q.tag = int(m.Topics[0].Partitions[0].Timestamp)
				}
			case *metadata.Request:
				if len(m.TopicNames) == 1 {
					q.tag, _ = strconv.Atoi(strings.TrimPrefix(m.TopicNames[0], "t"))
				}
			case *produce.Request:
				// the tag is the value of the first record
				if len(m.Topics) == 1 && len(m.Topics[0].Partitions) == 1 && m.Topics[0].Partitions[0].RecordSet.Records != nil {
					if rec, err := m.Topics[0].Partitions[0].RecordSet.Records.ReadRecord(); err == nil {
						if v, err := protocol.ReadAll(rec.Value); err == nil {
							q.tag, _ = strconv.Atoi(string(v))
						}
					}
				}
			case *fetch.Request:
				q.tag = int(m.MaxWaitTime)
				q.gz = b.rr.Intn(100) < b.gzPct
				if len(m.Topics) == 1 && len(m.Topics[0].Partitions) == 1 {
					q.off = m.Topics[0].Partitions[0].FetchOffset
					q.limit = int(m.Topics[0].Partitions[0].PartitionMaxBytes)
				}
				if b.tailForm {
					q.gz, q.tail, q.keyed, q.filler, q.oversize = false, true, b.keyed, b.filler, b.oversize
				}
			}
		}
		b.mu.Lock()
		q.seq = len(b.reqs)
		b.reqs = append(b.reqs, q)
		b.mu.Unlock()
		b.pending <- q
	}
}

func be32(v uint32) []byte { b := make([]byte, 4); binary.BigEndian.PutUint32(b, v); return b }
func be16(v uint16) []byte { b := make([]byte, 2); binary.BigEndian.PutUint16(b, v); return b }
func be64(v uint64) []byte { b := make([]byte, 8); binary.BigEndian.PutUint64(b, v); return b }
func kstr(s string) []byte { return append(be16(uint16(len(s))), s...) }

// response builds the frame (size prefix included) answering q; errCode goes into the (last) error field.
func response(q muxReq, id int32, errCode int16) []byte {
	var msg protocol.Message
	switch q.key {
	case 18:
		msg = &apiversions.Response{ApiKeys: []apiversions.ApiKeyResponse{{ApiKey: 18, MaxVersion: 0}, {ApiKey: 3, MinVersion: 1, MaxVersion: 1},
			{ApiKey: 2, MinVersion: 1, MaxVersion: 1}, {ApiKey: 1, MinVersion: 2, MaxVersion: max16(q.fetchVer, 2)},
			{ApiKey: 0, MinVersion: 2, MaxVersion: []int16{2, 3, 7}[int(uint32(id))%3]}}}
	case 2:
		msg = &listoffsets.Response{Topics: []listoffsets.ResponseTopic{{Topic: "t",
			Partitions: []listoffsets.ResponsePartition{{Partition: 0, ErrorCode: errCode, Timestamp: int64(q.tag), Offset: int64(q.tag)}}}}}
	case 3:
		name := "t" + strconv.Itoa(q.tag)
		msg = &metadata.Response{Brokers: []metadata.ResponseBroker{{NodeID: 1, Host: "broker1", Port: 9092}}, ControllerID: 1,
			Topics: []metadata.ResponseTopic{{Name: name, Partitions: []metadata.ResponsePartition{
				{ErrorCode: errCode, PartitionIndex: 0, LeaderID: 1, ReplicaNodes: []int32{1}, IsrNodes: []int32{1}}}}}}
	case 0:
		// Produce: the base offset assigned to the batch is the tag
		msg = &produce.Response{Topics: []produce.ResponseTopic{{Topic: "t",
			Partitions: []produce.ResponsePartition{{Partition: 0, ErrorCode: errCode, BaseOffset: int64(q.tag), LogAppendTime: -1}}}}}
	case 1:
		// Fetch v2, one magic-1 message whose value is the tag
		val := []byte(strconv.Itoa(q.tag))
		var m bytes.Buffer
		m.Write(be32(0))              // crc (not verified by the reader)
		m.WriteByte(1)                // magic
		m.WriteByte(0)                // attributes
		m.Write(be64(1))              // timestamp
		m.Write(be32(0xffffffff))     // key = null
		m.Write(be32(uint32(len(val))))
		m.Write(val)
		var set bytes.Buffer
		if q.tail {
			set.Write(tailSet(q, id))
		} else if q.gz {
			// a compressed batch of three messages (relative offsets inside, the wrapper carries the last absolute
			// offset) FOLLOWED by more bytes of the same message set.  A caller that closes the Batch after one
			// record never parses them; they must be discarded from the wire with the rest of the response.  They
			// spell a complete frame for the NEXT correlation id with a foreign payload, so that any leftover that
			// is later mistaken for a response shows up as a wrong tag at the API.
			var inner bytes.Buffer
			for k := int64(0); k < 3; k++ {
				inner.Write(be64(uint64(k)))
				inner.Write(be32(uint32(m.Len())))
				inner.Write(m.Bytes())
			}
			var zb bytes.Buffer
			zw := gzip.NewWriter(&zb)
			zw.Write(inner.Bytes())
			zw.Close()
			var w bytes.Buffer
			w.Write(be32(0))
			w.WriteByte(1) // magic
			w.WriteByte(1) // attributes: gzip
			w.Write(be64(1))
			w.Write(be32(0xffffffff))
			w.Write(be32(uint32(zb.Len())))
			w.Write(zb.Bytes())
			set.Write(be64(uint64(q.off + 2)))
			set.Write(be32(uint32(w.Len())))
			set.Write(w.Bytes())
			set.Write(embeddedFrame(id + 1))
		} else {
			for k := int64(0); k < 4; k++ {
				set.Write(be64(uint64(q.off + k)))
				set.Write(be32(uint32(m.Len())))
				set.Write(m.Bytes())
			}
		}
		var body bytes.Buffer
		body.Write(be32(uint32(id)))
		body.Write(be32(0)) // throttle
		if q.ver >= 7 {
			body.Write(be16(0)) // top-level error code
			body.Write(be32(0)) // session id
		}
		body.Write(be32(1)) // topics
		body.Write(kstr("t"))
		body.Write(be32(1)) // partitions
		body.Write(be32(0))
		body.Write(be16(uint16(errCode)))
		body.Write(be64(uint64(q.off + 10)))
		if q.ver >= 4 {
			body.Write(be64(uint64(q.off + 10))) // last stable offset
			if q.ver >= 5 {
				body.Write(be64(0)) // log start offset
			}
			body.Write(be32(0xffffffff)) // aborted transactions: null
		}
		if errCode != 0 {
			body.Write(be32(0))
		} else {
			body.Write(be32(uint32(set.Len())))
			body.Write(set.Bytes())
		}
		return append(be32(uint32(body.Len())), body.Bytes()...)
	default:
		return nil
	}
	b, err := muxfake.Encode(q.ver, id, msg)
	if err != nil {
		panic(err)
	}
	return b
}

func max16(a, b int16) int16 {
	if a > b {
		return a
	}
	return b
}

// v1msg renders one magic-1 message-set entry.
func v1msg(offset int64, key, value []byte) []byte {
	var m bytes.Buffer
	m.Write(be32(0)) // crc (not verified by the reader)
	m.WriteByte(1)   // magic
	m.WriteByte(0)   // attributes
	m.Write(be64(1)) // timestamp
	if key == nil {
		m.Write(be32(0xffffffff))
	} else {
		m.Write(be32(uint32(len(key))))
		m.Write(key)
	}
	m.Write(be32(uint32(len(value))))
	m.Write(value)
	return append(append(be64(uint64(offset)), be32(uint32(m.Len()))...), m.Bytes()...)
}

// tailSet is the "tail" form of a message set: message 1 with a short value, message 2 (the last thing in the
// response) whose value is `<tag>;` + filler + a frame for the next correlation id carrying the foreign tag.  With
// `oversize` the filler is sized so that everything before the embedded frame is exactly `limit` bytes — the
// number of bytes the client asked for at most (a broker returns a first message larger than that whole, KIP-74).
func tailSet(q muxReq, id int32) []byte {
	var key []byte
	if q.keyed {
		key = []byte("key-5")
	}
	prefix := []byte(fmt.Sprintf("%d;", q.tag))
	emb := embeddedFrame(id + 1)
	m1 := v1msg(q.off, key, append(append([]byte(nil), prefix...), "m1"...))
	hdr2 := len(v1msg(0, key, nil))
	filler := q.filler
	if q.oversize {
		filler = q.limit - len(m1) - hdr2 - len(prefix)
		if filler < 0 {
			// the limit is too small for two messages: a single oversize message
			m1 = nil
			filler = q.limit - hdr2 - len(prefix)
			if filler < 0 {
				filler = 0
			}
		}
	}
	v2 := append(append(append([]byte(nil), prefix...), bytes.Repeat([]byte{'.'}, filler)...), emb...)
	off2 := q.off + 1
	if m1 == nil {
		off2 = q.off
	}
	return append(m1, v1msg(off2, key, v2)...)
}

// foreignTag is a payload nobody asked for.
const foreignTag = 888888

// embeddedFrame is a complete, well-formed ListOffsets response frame for correlation id `id` carrying the
// foreign payload: bytes a broker may legitimately have inside a response body (a record value, a string).
func embeddedFrame(id int32) []byte {
	return response(muxReq{key: 2, ver: 1, tag: foreignTag}, id, 0)
}

func (b *muxBroker) write(p []byte) bool {
	b.conn.SetWriteDeadline(time.Now().Add(2 * time.Second))
	if b.chunked && len(p) > 1 {
		// the bytes reach the client in pieces cut at arbitrary places (TCP segments, a full bufio buffer): the Conn's
		// bufio.Reader holds only the first piece until a reader asks for more
		for len(p) > 0 {
			k := 1 + b.wr.Intn(len(p))
			if b.wr.Intn(3) == 0 && len(p) > 12 {
				k = 1 + b.wr.Intn(12) // often inside the size / correlation id / first fields
			}
			if _, err := b.conn.Write(p[:k]); err != nil {
				return false
			}
			p = p[k:]
			if len(p) > 0 {
				time.Sleep(100 * time.Microsecond)
			}
		}
		return true
	}
	_, err := b.conn.Write(p)
	return err == nil
}

func (b *muxBroker) logSent(id uint32, tag int) {
	b.mu.Lock()
	b.sent = append(b.sent, sentFrame{id, tag})
	b.mu.Unlock()
}

func (b *muxBroker) sendLoop() {
	defer close(b.done)
	defer b.conn.Close()
	var held []muxReq
	flush := func() bool {
		switch b.order {
		case "reverse":
			for i, j := 0, len(held)-1; i < j; i, j = i+1, j-1 {
				held[i], held[j] = held[j], held[i]
			}
		case "random":
			b.r.Shuffle(len(held), func(i, j int) { held[i], held[j] = held[j], held[i] })
		}
		for _, q := range held {
			f := b.faults[q.seq]
			if q.key == 18 && f != fDrop && f != fClose {
				f = fNone
			}
			if f == fTail && q.key == 1 {
				f = fNone // Fetch: the tail forms of the message set cover it
			}
			switch f {
			case fDrop:
				continue
			case fClose:
				return false
			case fBogus:
				// a well-formed frame nobody asked for (id far from any issued one)
				fake := q
				fake.tag = 999999
				b.logSent(u32(q.id)+0x40000000, fake.tag)
				if !b.write(response(fake, int32(u32(q.id)+0x40000000), 0)) {
					return false
				}
			}
			code := int16(0)
			tag := q.tag
			if f == fKafkaErr {
				code = 3
			}
			frame := response(q, q.id, code)
			b.logSent(u32(q.id), tag)
			switch f {
			case fSlowBody:
				if !b.write(frame[:8]) {
					return false
				}
				time.Sleep(b.pause)
				if !b.write(frame[8:]) {
					return false
				}
			case fTrunc:
				b.write(frame[:len(frame)-3])
				return false
			case fStall:
				// a well-formed response whose body is k genuine bytes, then (after a stall longer than the caller's
				// deadline) the rest: payload bytes that happen to spell a frame for the next correlation id
				body := frame[8:]
				k := b.stallK % (len(body) + 1)
				rest := append(append([]byte(nil), embeddedFrame(q.id+1)...), body[k:]...)
				hdr := append(be32(uint32(4+k+len(rest))), frame[4:8]...)
				if !b.write(append(hdr, body[:k]...)) {
					return false
				}
				time.Sleep(b.stallFor)
				if !b.write(rest) {
					return false
				}
			default:
				if (q.key == 18 && b.avTail) || f == fTail {
					// payload bytes after the version list, inside the frame: a client that stops reading where the list
					// ends must not take them for the next response (/repo 2b8f9f7: now an error that closes the conn)
					emb := embeddedFrame(q.id + 1)
					frame = append(append(be32(uint32(len(frame)-4+len(emb))), frame[4:]...), emb...)
				}
				if !b.write(frame) {
					return false
				}
			}
			if f == fDup {
				b.logSent(u32(q.id), tag)
				if !b.write(frame) {
					return false
				}
			}
			if b.gap > 0 {
				time.Sleep(b.gap)
			}
		}
		held = held[:0]
		return true
	}
	timer := time.NewTimer(time.Hour)
	for {
		timer.Reset(12 * time.Millisecond)
		select {
		case q, ok := <-b.pending:
			if !ok {
				return
			}
			held = append(held, q)
			if len(held) >= b.batch {
				if !flush() {
					return
				}
			}
		case <-timer.C:
			if len(held) > 0 {
				if !flush() {
					return
				}
			}
		}
	}
}

// ---------------------------------------------------------------- one Conn scenario

type callRes struct {
	tag int
	res string
}

func errRes(err error) string {
	var ke kafka.Error
	if errors.As(err, &ke) {
		return "kafka"
	}
	return "err"
}

// connScenario runs one Conn scenario.  stallAt >= 0 selects the stall family: one caller, tagged ReadOffset
// calls only, and the broker stalls in the middle of the body of the SECOND response after exactly stallAt body
// bytes, past the caller's deadline, then sends the rest and answers what follows.
//
// tailFam >= 0 selects the tail family: two callers with one call each, the broker waits for both requests and
// answers them in order, and the FIRST answer carries, after its complete body and inside its frame, bytes that spell
// a frame for the second caller's correlation id with a foreign payload.  The first caller's reader must fail (bytes
// left) and the second caller must not be served the leftover (C06-D30).
var tailFam = -1

// wrapStart != 0: the Conn's correlation id counter is preset to it before the scenario (ids cross 2^31 or 2^32 within
// the first few requests); everything else is an ordinary random scenario.
var wrapStart int32

func connScenario(r *rand.Rand, thorough bool, single bool, stallAt int) {
	cl, sv := net.Pipe()
	conn := kafka.NewConnWith(cl, kafka.ConnConfig{ClientID: "c06", Topic: "t", Partition: 0})
	conn.Seek(0, kafka.SeekAbsolute|kafka.SeekDontCheck)
	// the wrap family: the correlation id counter starts just below 2^31 (int32 overflow) or just below 2^32 (back to 0)
	idBase = 0
	if wrapStart != 0 {
		idBase = uint32(wrapStart)
		conn.VerifSetCorrelationID(wrapStart)
	}
	nG := 2 + r.Intn(5)
	perG := 1 + r.Intn(3)
	if r.Intn(4) == 0 || single {
		nG, perG = 1, 2+r.Intn(3)
	}
	if stallAt >= 0 {
		nG, perG = 1, 4
	}
	if tailFam >= 0 {
		nG, perG = 2, 1
	}
	b := &muxBroker{conn: sv, pending: make(chan muxReq, 64), done: make(chan struct{}), r: rand.New(rand.NewSource(r.Int63())),
		batch: 1 + r.Intn(nG+1), order: []string{"fifo", "reverse", "random"}[r.Intn(3)], faults: map[int]fault{},
		gap: time.Duration(r.Intn(3)) * 200 * time.Microsecond, pause: time.Duration(5+r.Intn(60)) * time.Millisecond}
	total := nG * perG
	nf := 0
	if r.Intn(3) > 0 {
		nf = 1 + r.Intn(2)
	}
	// frames nobody (any longer) waits for (fBogus, fDup): with two or more waiters such a frame at the head of the buffer
	// makes every waiter yield to the others in waitResponse; Peek is served from the buffer, so the socket's deadline
	// never fires.  Until /repo (round 5, C06-D32) the waiters spun forever and these faults could only be used with a single
	// caller; now a waiter whose deadline has passed gives the connection up, and every call of these scenarios has one.
	kinds := []fault{fDrop, fKafkaErr, fSlowBody, fTrunc, fClose, fKafkaErr, fSlowBody, fTail, fBogus, fDup}
	if nG == 1 {
		kinds = []fault{fBogus, fDup, fStall, fStall, fStall, fKafkaErr, fDrop, fTail}
	}
	for i := 0; i < nf; i++ {
		b.faults[r.Intn(total+1)] = kinds[r.Intn(len(kinds))]
	}
	b.gzPct = 50
	b.avTail = stallAt < 0 && r.Intn(10) == 0
	if tailFam >= 0 {
		b.batch, b.order, b.avTail, b.faults = 2, "fifo", tailFam >= 4, map[int]fault{}
		if tailFam < 4 {
			b.faults[0] = fTail
		}
	}
	if stallAt >= 0 {
		b.faults = map[int]fault{1: fStall}
		b.batch = 1
	}
	b.rr = rand.New(rand.NewSource(r.Int63()))
	b.chunked = stallAt < 0 && r.Intn(3) == 0
	b.wr = rand.New(rand.NewSource(r.Int63()))
	b.stallK = r.Intn(64)
	if stallAt >= 0 {
		b.stallK = stallAt
	}
	go b.readLoop()
	go b.sendLoop()

	// hook events, attributed to the harness call in flight on the recording goroutine
	var mu sync.Mutex
	curTag := map[int64]int{}
	writeTag := map[int]int{} // event seq → tag
	kafka.VerifSetSink(func(e kafka.VerifEvent) {
		if e.Kind == "C.Write" {
			g := goid()
			mu.Lock()
			writeTag[e.Seq] = curTag[g]
			mu.Unlock()
		}
	})
	kafka.VerifStart()
	deadline := time.Duration(40+r.Intn(80)) * time.Millisecond
	if tailFam >= 0 {
		deadline = 400 * time.Millisecond
	}
	b.stallFor = deadline + 250*time.Millisecond // a wide margin: the rest of the body must not arrive before the caller has given up, even on a loaded machine
	var wg sync.WaitGroup
	results := make([]callRes, 0, total)
	tagBase := 1000 + r.Intn(1000)*100
	for g := 0; g < nG; g++ {
		wg.Add(1)
		ops := make([]string, perG)
		for i := range ops {
			ops[i] = []string{"offset", "parts", "batch", "offset", "parts", "produce"}[r.Intn(6)]
			if stallAt >= 0 {
				ops[i] = "offset"
			}
			if tailFam >= 0 {
				// 0..3: the tail follows the body of a ListOffsets / Metadata answer; 4..: it follows the version list of the
				// ApiVersions answer that the produce call asks for first, while the other caller is already waiting
				ops[i] = [][]string{{"offset", "offset"}, {"parts", "parts"}, {"offset", "parts"}, {"parts", "offset"},
					{"produce", "offset"}, {"produce", "parts"}, {"offset", "produce"}, {"batch", "offset"}}[tailFam%8][g]
			}
		}
		hold := time.Duration(r.Intn(3)) * time.Millisecond
		go func(g int) {
			defer wg.Done()
			me := goid()
			for i, op := range ops {
				tag := tagBase + g*10 + i
				mu.Lock()
				curTag[me] = tag
				mu.Unlock()
				dl := deadline
				if stallAt >= 0 && i >= 2 {
					// the calls after the one that gave up in the middle of the stalled body must still be there when the rest
					// of that body arrives: if the conn was (wrongly) kept, that is when the leftover is served to them
					dl = b.stallFor + 300*time.Millisecond
				}
				conn.SetDeadline(time.Now().Add(dl))
				res := ""
				switch op {
				case "offset":
					off, err := conn.ReadOffset(time.UnixMilli(int64(tag)))
					if err != nil {
						res = errRes(err)
					} else {
						res = fmt.Sprintf("ok:%d", off)
					}
				case "parts":
					ps, err := conn.ReadPartitions("t" + strconv.Itoa(tag))
					switch {
					case err != nil:
						res = errRes(err)
					case len(ps) != 1:
						res = fmt.Sprintf("ok:%dparts", len(ps))
					default:
						res = "ok:" + strings.TrimPrefix(ps[0].Topic, "t")
					}
				case "produce":
					_, _, off, _, err := conn.WriteCompressedMessagesAt(nil, kafka.Message{Value: []byte(strconv.Itoa(tag))})
					if err != nil {
						res = errRes(err)
					} else {
						res = fmt.Sprintf("ok:%d", off)
					}
				case "batch":
					bt := conn.ReadBatchWith(kafka.ReadBatchConfig{MinBytes: 1, MaxBytes: 1 << 20, MaxWait: time.Duration(tag) * time.Millisecond})
					o0, h0 := bt.Offset(), bt.HighWaterMark()
					msg, err := bt.ReadMessage()
					if os.Getenv("C06_DEBUG") != "" && err != nil {
						fmt.Fprintf(os.Stderr, "batch off=%d hwm=%d err=%v\n", o0, h0, err)
					}
					time.Sleep(hold) // the Batch keeps the read lock
					cerr := bt.Close()
					switch {
					case errors.Is(err, io.EOF) && cerr == nil:
						// the batch ended without yielding a message (the reader skipped them): the call
						// completed but returned no payload to compare
						res = "ok:?"
					case err != nil:
						if os.Getenv("C06_DEBUG") != "" {
							fmt.Fprintf(os.Stderr, "batch tag %d: ReadMessage: %v (close: %v)\n", tag, err, cerr)
						}
						res = errRes(err)
					case cerr != nil:
						res = errRes(cerr)
					default:
						if os.Getenv("C06_DEBUG") != "" {
							fmt.Fprintf(os.Stderr, "batch ok\n")
						}
						res = "ok:" + string(msg.Value)
					}
				}
				if os.Getenv("C06_DEBUG") != "" && (!strings.HasPrefix(res, "ok") || op == "produce") {
					fmt.Fprintf(os.Stderr, "op %s tag %d -> %s\n", op, tag, res)
				}
				mu.Lock()
				results = append(results, callRes{tag, res})
				mu.Unlock()
			}
		}(g)
	}
	if nG > 1 && stallAt < 0 && tailFam < 0 && r.Intn(6) == 0 {
		// the application closes the Conn while calls are in flight
		after := time.Duration(r.Intn(15)) * time.Millisecond
		wg.Add(1)
		go func() {
			defer wg.Done()
			time.Sleep(after)
			conn.Close()
		}()
	}
	wg.Wait()
	evs := kafka.VerifStop()
	kafka.VerifSetSink(nil)
	conn.Close()
	<-b.done

	b.mu.Lock()
	sent, reqs := append([]sentFrame(nil), b.sent...), append([]muxReq(nil), b.reqs...)
	b.mu.Unlock()
	emitMux(sent, reqs, evs, writeTag, results)
}

// emitMux renders one Conn scenario: frames sent, hook events (C.Write tagged with the harness call), results.
// idBase: the correlation id counter the Conn of the current scenario was preset to (wrap family); the lines carry
// ids relative to it (mod 2^32), so that Model/ConnMux — whose calls are numbered from 1 — reads every scenario alike.
// The relabelling is a bijection on 32-bit ids: it preserves which id equals which.
var idBase uint32

func emitMux(sent []sentFrame, reqs []muxReq, evs []kafka.VerifEvent, writeTag map[int]int, results []callRes) {
	var stream []string
	for _, f := range sent {
		stream = append(stream, fmt.Sprintf("%d:%d", f.id-idBase, f.tag))
	}
	var es []string
	holder := ""
	last := ""
	isApiVersions := map[string]bool{}
	for _, q := range reqs {
		if q.key == 18 {
			isApiVersions[strconv.Itoa(int(q.id))] = true
		}
	}
	for _, e := range evs {
		item := ""
		switch e.Kind {
		case "C.Write":
			ok := 0
			if e.Args[2] == "true" {
				ok = 1
			}
			tag := writeTag[e.Seq]
			if isApiVersions[e.Args[1]] {
				tag = 0 // the lazy ApiVersions exchange in front of the first versioned operation
			}
			wid, _ := strconv.ParseInt(e.Args[1], 10, 64)
			item = fmt.Sprintf("W%d:%d:%d", tag, ok, uint32(wid)-idBase)
		case "C.Peek":
			id, _ := strconv.ParseInt(e.Args[1], 10, 64)
			switch e.Args[3] {
			case "close":
				item = fmt.Sprintf("E%d", uint32(id)-idBase)
			case "take":
				item = fmt.Sprintf("T%d", uint32(id)-idBase)
				holder = strconv.Itoa(int(uint32(id)-idBase))
			default:
				seen, _ := strconv.ParseInt(e.Args[2], 10, 64)
				k := "Y"
				if e.Args[3] == "lone" {
					k = "L"
				}
				item = fmt.Sprintf("%s%d:%d", k, uint32(id)-idBase, uint32(seen)-idBase)
			}
		case "C.Closed":
			item = "K"
		case "C.Body":
			o := e.Args[2]
			if o == "unlock" || o == "short" {
				o = "ok" // "short": io.ErrShortBuffer of Batch.Read — payload delivered in part, frame drained, conn kept
			}
			who := e.Args[1]
			if who == "batch" {
				who = holder
			} else {
				id, _ := strconv.ParseInt(who, 10, 64)
				who = strconv.Itoa(int(uint32(id)-idBase))
			}
			item = fmt.Sprintf("F%s:%s", who, o)
		default:
			continue
		}
		if item == last && strings.HasPrefix(item, "Y") {
			continue // a waiter spinning on the same foreign frame: idempotent in the model
		}
		last = item
		es = append(es, item)
	}
	sort.Slice(results, func(i, j int) bool { return results[i].tag < results[j].tag })
	var rs, tags, opaque []string
	for _, c := range results {
		rs = append(rs, fmt.Sprintf("%d:%s", c.tag, c.res))
		tags = append(tags, strconv.Itoa(c.tag))
		if c.res == "ok:?" {
			opaque = append(opaque, strconv.Itoa(c.tag))
		}
	}
	fmt.Fprintf(out, "mux %s %s %s %s\t%s\n", joinOr(stream), joinOr(es), joinOr(tags), joinOr(opaque), joinOr(rs))
}

func joinOr(l []string) string {
	if len(l) == 0 {
		return "-"
	}
	return strings.Join(l, ",")
}

func main() {
	defer out.Flush()
	r := gen.New()
	thorough := gen.Thorough()
	n := 184
	if thorough {
		n = 1534
	}
	if len(os.Args) > 1 {
		n, _ = strconv.Atoi(os.Args[1])
	}
	n += 8
	// first: on a tree where stranded waiters spin for ever the random multi-caller scenarios below hang (the watchdog
	// ends the run), so the deterministic case must already be on record; its two goroutines then keep spinning
	strandedCase()
	deadlineCases()
	bytesCases(r, thorough)
	consumedCases(r, thorough)
	splitCases(r, thorough)
	out.Flush()
	stressScenarios(r, thorough)
	fetchScenarios(r, thorough)
	for i := 0; i < n; i++ {
		fin := make(chan struct{})
		go func() {
			select {
			case <-fin:
			case <-time.After(20 * time.Second):
				out.Flush()
				fmt.Fprintf(os.Stderr, "c06: conn scenario %d did not finish within 20s\n", i)
				buf := make([]byte, 1<<16)
				os.Stderr.Write(buf[:runtime.Stack(buf, true)])
				os.Exit(3)
			}
		}()
		// the first fifth of the scenarios are single-caller ones (duplicates / foreign frames allowed)
		// scenarios 0..33: the stall family, one per cut position k of the 33-byte ListOffsets body (and one beyond)
		// scenarios 0..7 of the run: the tail family; then the numbering above
		stallAt, j := -1, i-8
		tailFam = -1
		if i < 8 {
			tailFam = i
		} else if j < 34 {
			stallAt = j
		}
		// every 7th random scenario crosses an id boundary
		wrapStart = 0
		if j >= 34 && j%7 == 0 {
			wrapStart = []int32{1<<31 - 3, -3, 1<<31 - 1, -1, -1 << 31}[(j/7)%5] - int32(r.Intn(3))
		}
		connScenario(r, thorough, j >= 0 && j < 34+n/5, stallAt)
		out.Flush()
		close(fin)
	}
	transportScenarios(r, thorough)
	idWrapCases()
	acksZeroCases()
	fetchTailCases(thorough)
	discoverCase(thorough)
}
