package main

import (
	"bytes"
	"encoding/hex"
	"errors"
	"fmt"
	"io"
	"math/rand"
	"net"
	"strings"
	"sync"
	"time"

	kafka "github.com/segmentio/kafka-go"
	"github.com/segmentio/kafka-go/protocol"

	"kvharness/internal/muxfake"
)

// countingConn counts the bytes the client took from the network and notices Close.
type countingConn struct {
	net.Conn
	mu     sync.Mutex
	n      int
	closed bool
}

func (c *countingConn) Read(p []byte) (int, error) {
	n, err := c.Conn.Read(p)
	c.mu.Lock()
	c.n += n
	c.mu.Unlock()
	return n, err
}

func (c *countingConn) Close() error {
	c.mu.Lock()
	c.closed = true
	c.mu.Unlock()
	return c.Conn.Close()
}

func hexOr(b []byte) string {
	if len(b) == 0 {
		return "-"
	}
	return hex.EncodeToString(b)
}

func berr(err error) string {
	var ke kafka.Error
	switch {
	case errors.Is(err, io.EOF):
		return "eof"
	case errors.Is(err, io.ErrShortBuffer):
		return "short"
	case errors.Is(err, io.ErrUnexpectedEOF):
		return "ueof"
	case errors.As(err, &ke):
		return fmt.Sprintf("k%d", int(ke))
	}
	return "other"
}

// bytesCase: one Fetch exchange on a fresh Conn.  The broker answers the fetch request with the frame
// `size = declared+4, correlation id, body` and closes its end; the caller runs `ops` on the Batch and closes it.
// Observed: every result, what Close returned, whether the Conn was closed, and how many body bytes were consumed.
func bytesCase(ver int16, offset int64, declared int, body []byte, ops []string) string {
	return bytesCaseSplit(ver, offset, declared, body, ops, 0)
}

// bytesCaseSplit: as bytesCase, the response frame reaching the client in two chunks cut after `split` bytes of the
// frame (0 = one chunk): the bufio.Reader of the Conn holds only the first chunk until the reader asks for more.
func bytesCaseSplit(ver int16, offset int64, declared int, body []byte, ops []string, split int) string {
	cl, sv := net.Pipe()
	cc := &countingConn{Conn: cl}
	conn := kafka.NewConnWith(cc, kafka.ConnConfig{ClientID: "c06", Topic: "t", Partition: 0})
	conn.Seek(offset, kafka.SeekAbsolute|kafka.SeekDontCheck)
	pre := 0
	var pmu sync.Mutex
	go func() {
		defer sv.Close()
		for {
			frame, err := muxfake.ReadFrame(sv)
			if err != nil {
				return
			}
			h, err := muxfake.ParseHeader(frame)
			if err != nil {
				return
			}
			if h.Key == 18 {
				out := response(muxReq{key: 18, ver: h.Ver, fetchVer: ver}, h.Corr, 0)
				pmu.Lock()
				pre += len(out)
				pmu.Unlock()
				sv.Write(out)
				continue
			}
			out := append(append(be32(uint32(declared+4)), be32(uint32(h.Corr))...), body...)
			pmu.Lock()
			pre += 8
			pmu.Unlock()
			sv.SetWriteDeadline(time.Now().Add(2 * time.Second))
			if split > 0 && split < len(out) {
				if _, err := sv.Write(out[:split]); err != nil {
					return
				}
				time.Sleep(300 * time.Microsecond)
				sv.Write(out[split:])
				return
			}
			sv.Write(out)
			return
		}
	}()
	conn.SetDeadline(time.Now().Add(5 * time.Second))
	bt := conn.ReadBatchWith(kafka.ReadBatchConfig{MinBytes: 1, MaxBytes: 1 << 20, MaxWait: time.Second})
	var rs []string
	for _, op := range ops {
		if op == "rm" {
			m, err := bt.ReadMessage()
			if err != nil {
				rs = append(rs, "e:"+berr(err))
			} else {
				rs = append(rs, fmt.Sprintf("m:%d:%s:%s", m.Offset, hexOr(m.Key), hexOr(m.Value)))
			}
			continue
		}
		var capb int
		fmt.Sscanf(op, "rd%d", &capb)
		buf := make([]byte, capb)
		n, err := bt.Read(buf)
		switch {
		case err == nil:
			rs = append(rs, fmt.Sprintf("d:%d:%s:0", n, hexOr(buf[:n])))
		case errors.Is(err, io.ErrShortBuffer):
			rs = append(rs, fmt.Sprintf("d:%d:%s:1", n, hexOr(buf[:n])))
		default:
			rs = append(rs, "e:"+berr(err))
		}
	}
	cerr := bt.Close()
	ce := "nil"
	if cerr != nil {
		ce = berr(cerr)
	}
	cc.mu.Lock()
	closed, total := cc.closed, cc.n
	cc.mu.Unlock()
	consumed := -1
	kept := 0
	if !closed {
		kept = 1
		pmu.Lock()
		consumed = total - kafka.VerifConnBuffered(conn) - pre
		pmu.Unlock()
	}
	conn.Close()
	if len(rs) == 0 {
		rs = []string{"-"}
	}
	return fmt.Sprintf("%s;%s;%d;%d", strings.Join(rs, ","), ce, kept, consumed)
}

// fetchHead renders the fetch response body in front of the message set for version ver.
func fetchHead(ver int16, errCode int16, hwm int64, setSize int) []byte {
	var b bytes.Buffer
	b.Write(be32(0)) // throttle
	if ver >= 7 {
		b.Write(be16(0))
		b.Write(be32(0))
	}
	b.Write(be32(1))
	b.Write(kstr("t"))
	b.Write(be32(1))
	b.Write(be32(0))
	b.Write(be16(uint16(errCode)))
	b.Write(be64(uint64(hwm)))
	if ver >= 4 {
		b.Write(be64(uint64(hwm)))
		if ver >= 5 {
			b.Write(be64(0))
		}
		b.Write(be32(0xffffffff))
	}
	b.Write(be32(uint32(setSize)))
	return b.Bytes()
}

func v01msg(magic byte, offset int64, key, value []byte, keyNull, valNull bool) []byte {
	var m bytes.Buffer
	m.Write(be32(0))
	m.WriteByte(magic)
	m.WriteByte(0)
	if magic == 1 {
		m.Write(be64(1))
	}
	if keyNull {
		m.Write(be32(0xffffffff))
	} else {
		m.Write(be32(uint32(len(key))))
		m.Write(key)
	}
	if valNull {
		m.Write(be32(0xffffffff))
	} else {
		m.Write(be32(uint32(len(value))))
		m.Write(value)
	}
	return append(append(be64(uint64(offset)), be32(uint32(m.Len()))...), m.Bytes()...)
}

// bytesCases: the byte-level correspondence  batch.go / message_reader.go / ReadBatchWith  ↔  Model/BatchBytes.lean.
func bytesCases(r *rand.Rand, thorough bool) {
	n := 160
	if thorough {
		n = 1600
	}
	for i := 0; i < n; i++ {
		ver := []int16{2, 5, 10}[r.Intn(3)]
		offset := int64(r.Intn(50))
		var set []byte
		var vlens []int
		nm := r.Intn(4)
		o := offset - int64(r.Intn(3)) // sometimes messages below the fetch offset (skipped)
		if o < 0 {
			o = 0
		}
		for k := 0; k < nm; k++ {
			key := gen1(r, r.Intn(6))
			val := gen1(r, []int{0, 1, 2, 5, 9, 17, 40}[r.Intn(7)])
			set = append(set, v01msg(byte(r.Intn(2)), o, key, val, r.Intn(3) == 0, r.Intn(8) == 0)...)
			vlens = append(vlens, len(val))
			o++
		}
		hwm := offset + 100
		errCode := int16(0)
		declaredSet := len(set)
		tail := []byte(nil) // bytes of the stream after the frame
		cutStream := -1
		switch r.Intn(10) {
		case 0: // the broker's byte limit cut the last message short (the set size says so)
			if len(set) > 0 {
				set = set[:r.Intn(len(set))]
				declaredSet = len(set)
			}
		case 1: // the stream ends inside the frame
			cutStream = r.Intn(len(set) + 20)
		case 2: // message set size field disagrees with the frame
			declaredSet = len(set) + 1 + r.Intn(3)
		case 3: // nothing available: high watermark = fetch offset; the set is empty — or not (the reader must skip it)
			hwm = offset
			if r.Intn(2) == 0 {
				set, declaredSet = nil, 0
			}
		case 4: // partition error
			errCode = []int16{1, 3, 6}[r.Intn(3)]
			if r.Intn(2) == 0 {
				set, declaredSet = nil, 0
			}
		case 5, 6: // another frame follows at once
			tail = gen1(r, 1+r.Intn(12))
		}
		body := append(fetchHead(ver, errCode, hwm, declaredSet), set...)
		declared := len(body)
		if cutStream >= 0 && cutStream < len(body) {
			body = body[:cutStream]
		}
		body = append(body, tail...)
		var ops []string
		for k := r.Intn(5); k > 0; k-- {
			if r.Intn(2) == 0 {
				ops = append(ops, "rm")
			} else {
				c := []int{0, 1, 3, 8, 64}[r.Intn(5)]
				if len(vlens) > 0 && r.Intn(2) == 0 {
					c = vlens[r.Intn(len(vlens))] + r.Intn(3) - 1
					if c < 0 {
						c = 0
					}
				}
				ops = append(ops, fmt.Sprintf("rd%d", c))
			}
		}
		opl := "-"
		if len(ops) > 0 {
			opl = strings.Join(ops, ",")
		}
		fmt.Fprintf(out, "bb %d %d %d %s %s\t%s\n", ver, offset, declared, hexOr(body), opl, bytesCase(ver, offset, declared, body, ops))
	}
}

// recordSetBytes renders records as a version-`ver` record set (v1 messages or a v2 record batch), optionally
// gzip-compressed, with kafka-go's own writer, and returns the bytes of the set without its size prefix.
func recordSetBytes(ver int8, base int64, gz bool, values [][]byte) []byte {
	recs := make([]protocol.Record, len(values))
	for i, v := range values {
		recs[i] = protocol.Record{Offset: base + int64(i), Time: time.UnixMilli(1000), Value: protocol.NewBytes(v)}
	}
	rs := protocol.RecordSet{Version: ver, Records: protocol.NewRecordReader(recs...)}
	if gz {
		rs.Attributes = protocol.Gzip
	}
	var b bytes.Buffer
	if _, err := rs.WriteTo(&b); err != nil || b.Len() < 4 {
		return nil
	}
	return b.Bytes()[4:]
}

// consumedCases: Fetch responses on the paths Model/BatchBytes does not spell out — v2 record batches, gzip
// batches, gzip wrapper messages, several of them in one response, truncated, followed by other bytes.  No model of
// the results here: the line carries what was observed and the oracle applies the conclusion of
// `wire_discipline_consumes_frame` — a kept Conn consumed exactly the declared frame.
func consumedCases(r *rand.Rand, thorough bool) {
	n := 80
	if thorough {
		n = 800
	}
	for i := 0; i < n; i++ {
		ver := []int16{2, 5, 10}[r.Intn(3)]
		offset := int64(r.Intn(40))
		var set []byte
		o := offset
		for k := 1 + r.Intn(3); k > 0; k-- {
			nv := 1 + r.Intn(3)
			vals := make([][]byte, nv)
			for j := range vals {
				vals[j] = gen1(r, 1+r.Intn(30))
			}
			rv := int8(1 + r.Intn(2))
			part := recordSetBytes(rv, o, r.Intn(2) == 0, vals)
			if part == nil {
				continue
			}
			set = append(set, part...)
			o += int64(nv)
		}
		declaredSet := len(set)
		var tail []byte
		switch r.Intn(6) {
		case 0:
			if len(set) > 0 {
				set = set[:r.Intn(len(set))]
				declaredSet = len(set)
			}
		case 1, 2:
			tail = gen1(r, 1+r.Intn(12))
		}
		body := append(fetchHead(ver, 0, offset+100, declaredSet), set...)
		declared := len(body)
		body = append(body, tail...)
		var ops []string
		for k := r.Intn(5); k > 0; k-- {
			if r.Intn(2) == 0 {
				ops = append(ops, "rm")
			} else {
				ops = append(ops, fmt.Sprintf("rd%d", []int{0, 2, 7, 64}[r.Intn(4)]))
			}
		}
		opl := "-"
		if len(ops) > 0 {
			opl = strings.Join(ops, ",")
		}
		res := bytesCase(ver, offset, declared, body, ops)
		f := strings.Split(res, ";")
		fmt.Fprintf(out, "bbc %d %d %d %s %s\t%s;%s\n", ver, offset, declared, hexOr(body), opl, f[len(f)-2], f[len(f)-1])
	}
}

// splitCases: v2 record batches (uncompressed, values of 70–300 bytes: record length and value length are multi-byte
// varints) in a Fetch response that reaches the client in two chunks, cut at EVERY byte position of the frame; the
// caller reads every message and closes the Batch; bytes of a following frame are already on the wire.  The varint
// reader then meets the chunk boundary inside a number at some of the cuts (Model/VarIntRead.lean: the refill branch).
// Emitted as `bbc` lines: a kept Conn has consumed exactly the declared frame, wherever the cut was.
func splitCases(r *rand.Rand, thorough bool) {
	shapes := [][]int{{70}, {130, 64}, {300, 5, 200}}
	if thorough {
		shapes = append(shapes, []int{64, 64, 64, 64}, []int{127, 128, 129}, []int{16384})
	}
	for si, lens := range shapes {
		ver := []int16{2, 5, 10}[si%3]
		offset := int64(3 + si)
		vals := make([][]byte, len(lens))
		for j, n := range lens {
			vals[j] = gen1(r, n)
		}
		set := recordSetBytes(2, offset, false, vals)
		if set == nil {
			continue
		}
		body := append(fetchHead(ver, 0, offset+100, len(set)), set...)
		declared := len(body)
		body = append(body, gen1(r, 6)...) // what follows the frame on the wire
		ops := make([]string, len(lens)+1)
		for j := range ops {
			ops[j] = "rm"
		}
		step := 1
		if len(body) > 600 && !thorough {
			step = 7
		}
		for k := 9; k < declared+8; k += step {
			res := bytesCaseSplit(ver, offset, declared, body, ops, k)
			f := strings.Split(res, ";")
			fmt.Fprintf(out, "bbc %d %d %d %s %s,split=%d\t%s;%s\n", ver, offset, declared, hexOr(body), strings.Join(ops, ","), k, f[len(f)-2], f[len(f)-1])
		}
	}
}

func gen1(r *rand.Rand, n int) []byte {
	b := make([]byte, n)
	for i := range b {
		b[i] = byte(r.Intn(256))
	}
	return b
}
