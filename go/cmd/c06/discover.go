package main

// discover.go — op `disc`: the metadata refresh loop of a Transport's connection pool (Model/PoolDiscover.lean).
//
// A fake broker over net.Pipe numbers the Metadata requests it receives (n = 1, 2, …) and answers request n with a
// cluster whose only topic is called "gen-<n>"; the requests in `late` are answered MetadataTTL + 150 ms after they
// arrived (the refresh has been abandoned on its deadline by then).  The Transport answers Metadata requests of its
// callers from the pool's cache, so the harness can look at the cache at any time.  Check: `settle` after the broker
// answered request n in time — and before it has received request n+1 — the cache shows generation n: a refresh applies
// the answer to ITS request.
//
//	disc <ttl ms> <settle ms> <script> \t fresh | stale:<n>:<shown> | err:<text>
//
// script: per request `S,C<n>:1,T` (answered in time) or `S,X,C<n>:0` (abandoned on its deadline; the connection
// goroutine fails it afterwards), as events of Model/PoolDiscover.

import (
	"context"
	"fmt"
	"net"
	"os"
	"strconv"
	"strings"
	"sync"
	"time"

	kafka "github.com/segmentio/kafka-go"
	"github.com/segmentio/kafka-go/protocol"
	"github.com/segmentio/kafka-go/protocol/apiversions"
	"github.com/segmentio/kafka-go/protocol/metadata"

	"kvharness/internal/muxfake"
)

func discoverCase(thorough bool) {
	const ttl = 400 * time.Millisecond
	const settle = 90 * time.Millisecond
	late := map[int]bool{2: true, 5: true, 8: true, 11: true, 14: true}
	runFor := 3200 * time.Millisecond
	if thorough {
		runFor = 6500 * time.Millisecond
	}
	var mu sync.Mutex
	received := 0                     // Metadata requests received so far
	answeredAt := map[int]time.Time{} // when an in-time answer was completely written
	var script []string
	dial := func(ctx context.Context, network, address string) (net.Conn, error) {
		cl, sv := net.Pipe()
		go func() {
			defer sv.Close()
			for {
				frame, err := muxfake.ReadFrame(sv)
				if err != nil {
					return
				}
				h, err := muxfake.ParseHeader(frame)
				if err != nil {
					return
				}
				var res protocol.Message
				k, isLate := 0, false
				switch h.Key {
				case 18:
					res = &apiversions.Response{ApiKeys: []apiversions.ApiKeyResponse{{ApiKey: 18, MaxVersion: 0}, {ApiKey: 3, MinVersion: 1, MaxVersion: 1}}}
				case 3:
					mu.Lock()
					received++
					k = received
					isLate = late[k]
					if isLate {
						script = append(script, "S", "X", fmt.Sprintf("C%d:0", k))
					} else {
						script = append(script, "S", fmt.Sprintf("C%d:1", k), "T")
					}
					mu.Unlock()
					if isLate {
						time.Sleep(ttl + 150*time.Millisecond)
					}
					res = &metadata.Response{Brokers: []metadata.ResponseBroker{{NodeID: 1, Host: "broker1", Port: 9092}}, ControllerID: 1,
						Topics: []metadata.ResponseTopic{{Name: "gen-" + strconv.Itoa(k), Partitions: []metadata.ResponsePartition{
							{PartitionIndex: 0, LeaderID: 1, ReplicaNodes: []int32{1}, IsrNodes: []int32{1}}}}}}
				default:
					return
				}
				p, err := muxfake.Encode(h.Ver, h.Corr, res)
				if err != nil {
					return
				}
				sv.SetWriteDeadline(time.Now().Add(time.Second))
				if _, err := sv.Write(p); err != nil {
					return
				}
				if k > 0 && !isLate {
					mu.Lock()
					answeredAt[k] = time.Now()
					mu.Unlock()
				}
			}
		}()
		return cl, nil
	}
	tr := &kafka.Transport{Dial: dial, MetadataTTL: ttl, ClientID: "c06-disc"}
	addr := kafka.TCP("broker1:9092")
	// what the cache shows now: the generation in the topic name
	shown := func() (int, error) {
		ctx, cancel := context.WithTimeout(context.Background(), 2*time.Second)
		defer cancel()
		r, err := tr.RoundTrip(ctx, addr, &metadata.Request{})
		if err != nil {
			return 0, err
		}
		m, ok := r.(*metadata.Response)
		if !ok || len(m.Topics) != 1 {
			return 0, fmt.Errorf("unexpected metadata answer")
		}
		g, err := strconv.Atoi(strings.TrimPrefix(m.Topics[0].Name, "gen-"))
		return g, err
	}
	verdict := ""
	checks := 0
	if _, err := shown(); err != nil {
		verdict = "err:warmup:" + strings.ReplaceAll(err.Error(), " ", "_")
	}
	checked := map[int]bool{}
	end := time.Now().Add(runFor)
	for verdict == "" && time.Now().Before(end) {
		time.Sleep(5 * time.Millisecond)
		mu.Lock()
		k, rcv := 0, received
		for n, at := range answeredAt {
			if !checked[n] && time.Since(at) >= settle && n > k {
				k = n
			}
		}
		mu.Unlock()
		if k == 0 || k != rcv {
			continue // nothing settled, or a later request is already under way (its answer may replace generation k any moment)
		}
		g, err := shown()
		mu.Lock()
		still := received == rcv
		mu.Unlock()
		if !still {
			continue
		}
		checked[k] = true
		checks++
		if err != nil {
			verdict = "err:" + strings.ReplaceAll(err.Error(), " ", "_")
		} else if g != k {
			verdict = fmt.Sprintf("stale:%d:%d", k, g)
		}
	}
	tr.CloseIdleConnections()
	if verdict == "" {
		if checks == 0 {
			fmt.Fprintln(os.Stderr, "c06: disc: no generation could be checked in this run (machine too slow?)")
			return
		}
		verdict = "fresh"
	}
	mu.Lock()
	sc := strings.Join(script, ",")
	mu.Unlock()
	if sc == "" {
		sc = "-"
	}
	fmt.Fprintf(out, "disc %d %d %s\t%s\n", ttl.Milliseconds(), settle.Milliseconds(), sc, verdict)
}
