package main

// Trace acceptance for Model/GroupRound.lean: real ConsumerGroups run against the group builder's coordinator simulation
// (go/internal/groupmock.Sim — an implementation of the coordinator independent of this property's model); every
// coordinator call and answer that moves assignment data is recorded and emitted as one case
//
//	ltrace <cluster partitions> <events>	<what every successful SyncGroup was answered with>
//
// events, `|`-separated, in the order the coordinator answered:
//	N:<gid>:<leader>:<members>   a join round completed (members = JoinGroup-response roster)
//	R:<m>  J:<m>:<gid>           member m (re)joins / its JoinGroup is answered with generation gid
//	A:<m>:<partitions>           the leader's readPartitions answer
//	L:<m>  S:<m>                 SyncGroup of the leader (with assignments) / of a member answered
//
// The oracle replays the events through the executable acceptor `runB` (range balancer as the model's `balance`) and
// predicts what every L / S step hands the member; `holds` = accepted and equal.  Timing never decides: a history that
// does not settle is dropped.

import (
	"context"
	"encoding/hex"
	"fmt"
	"math/rand"
	"os"
	"sort"
	"strings"
	"sync"
	"time"

	kafka "github.com/segmentio/kafka-go"

	gm "kvharness/internal/groupmock"
)

type simRec struct {
	mu       sync.Mutex
	sim      *gm.Sim
	seq      int
	events   []string
	obs      []string
	rosters  map[int32]string // gid -> "N:…" event
	firstUse map[int32]int    // gid -> index in events of the first event of that generation
	memberOf map[int]string   // harness member -> its current member id
	bad      bool
}

func xid(s string) string { return "x" + hex.EncodeToString([]byte(s)) }

func topicNo(t string) int {
	n := 0
	fmt.Sscanf(t, "t%d", &n)
	return n
}

func (s *simRec) note(gid int32) {
	if _, ok := s.firstUse[gid]; !ok {
		s.firstUse[gid] = len(s.events)
	}
}

func (s *simRec) record(c kafka.VerifCoordCall, r kafka.VerifCoordReply) {
	k := s.sim.Owner(c)
	switch c.Method {
	case "joinGroup":
		if r.Err != nil || r.ErrorCode != 0 {
			return
		}
		s.memberOf[k] = r.MemberID
		s.note(r.GenerationID)
		if r.Members != nil {
			ms := make([]member, len(r.Members))
			for i, m := range r.Members {
				var ts []int
				for _, t := range m.Topics {
					ts = append(ts, topicNo(t))
				}
				ms[i] = member{m.ID, 0, ts}
			}
			s.rosters[r.GenerationID] = fmt.Sprintf("N:{g%d}:%s:%s", r.GenerationID, xid(r.LeaderID), fmtMembers(ms))
		}
		s.events = append(s.events, "R:"+xid(r.MemberID), fmt.Sprintf("J:%s:{g%d}", xid(r.MemberID), r.GenerationID))
	case "readPartitions":
		if r.Err != nil {
			s.bad = true
			return
		}
		ps := make([]part, len(r.Parts))
		for i, p := range r.Parts {
			ps[i] = part{topicNo(p.Topic), p.ID, 0}
		}
		s.events = append(s.events, "A:"+xid(s.memberOf[k])+":"+fmtParts(ps))
	case "syncGroup":
		if r.Err != nil || r.ErrorCode != 0 {
			s.events = append(s.events, "R:"+xid(c.MemberID))
			return
		}
		kind := "S:"
		if c.Assign != nil {
			kind = "L:"
		}
		s.events = append(s.events, kind+xid(c.MemberID))
		var es []string
		var ts []string
		for t := range r.Assignments {
			ts = append(ts, t)
		}
		sort.Slice(ts, func(i, j int) bool { return topicNo(ts[i]) < topicNo(ts[j]) })
		for _, t := range ts {
			if len(r.Assignments[t]) > 0 {
				es = append(es, fmt.Sprintf("%d/%s", topicNo(t), ints32(r.Assignments[t])))
			}
		}
		o := "-"
		if len(es) > 0 {
			o = strings.Join(es, "+")
		}
		s.obs = append(s.obs, fmt.Sprintf("%s@{g%d}=%s", xid(c.MemberID), c.GenerationID, o))
	}
}

func (s *simRec) handle(c kafka.VerifCoordCall) kafka.VerifCoordReply {
	if c.Method == "close" {
		return kafka.VerifCoordReply{}
	}
	s.mu.Lock()
	s.seq++
	p := &gm.Pending{Call: c, Seq: s.seq}
	s.mu.Unlock()
	deadline := time.Now().Add(3 * time.Second)
	for {
		s.mu.Lock()
		r, ready := s.sim.Answer(p)
		if ready {
			s.record(c, r)
			s.mu.Unlock()
			return r
		}
		s.mu.Unlock()
		if time.Now().After(deadline) {
			s.mu.Lock()
			s.bad = true
			s.mu.Unlock()
			return kafka.VerifCoordReply{Err: fmt.Errorf("harness: coordinator call not answered in time")}
		}
		time.Sleep(300 * time.Microsecond)
	}
}

func simTraceScenario(r *rand.Rand) bool {
	nt := 1 + r.Intn(2)
	nparts := 1 + r.Intn(5)
	topics := make([]string, nt)
	var cluster []part
	for t := range topics {
		topics[t] = topicName(t)
		for i := 0; i < nparts; i++ {
			cluster = append(cluster, part{t, i, 0})
		}
	}
	rec := &simRec{sim: gm.NewSim(topics, nparts), rosters: map[int32]string{}, firstUse: map[int32]int{}, memberOf: map[int]string{}}
	kafka.VerifGroupResetConnIDs()
	kafka.VerifSetGroupHandler(rec.handle)
	defer kafka.VerifSetGroupHandler(nil)

	type live struct {
		cg     *kafka.ConsumerGroup
		cancel context.CancelFunc
	}
	var lives []*live
	gens := make(chan int32, 256)
	add := func() {
		k := len(lives)
		cg, err := kafka.NewConsumerGroup(kafka.ConsumerGroupConfig{
			ID: "grp", Brokers: []string{fmt.Sprintf("b%d:9092", k)}, Topics: topics,
			GroupBalancers:    []kafka.GroupBalancer{kafka.RangeGroupBalancer{}},
			HeartbeatInterval: 2 * time.Millisecond, JoinGroupBackoff: 3 * time.Millisecond,
			SessionTimeout: 2 * time.Second, RebalanceTimeout: 2 * time.Second,
		})
		if err != nil {
			fmt.Fprintln(os.Stderr, "c14 simtrace:", err)
			return
		}
		ctx, cancel := context.WithCancel(context.Background())
		lives = append(lives, &live{cg, cancel})
		go func() {
			for {
				gen, err := cg.Next(ctx)
				if err != nil {
					if ctx.Err() != nil || err == kafka.ErrGroupClosed {
						return
					}
					continue
				}
				gens <- gen.ID
				gen.Start(func(ctx context.Context) { <-ctx.Done() })
			}
		}()
	}
	open := func() int {
		n := 0
		for _, l := range lives {
			if l.cg != nil {
				n++
			}
		}
		return n
	}
	// settle: every open member holds a generation with the newest generation id, and the coordinator is not rebalancing
	settle := func() bool {
		deadline := time.Now().Add(4 * time.Second)
		count := map[int32]int{}
		for time.Now().Before(deadline) {
			select {
			case g := <-gens:
				count[g]++
			case <-time.After(2 * time.Millisecond):
			}
			rec.mu.Lock()
			reb := rec.sim.Rebalancing()
			rec.mu.Unlock()
			var max int32
			for g := range count {
				if g > max {
					max = g
				}
			}
			if !reb && max > 0 && count[max] >= open() {
				return true
			}
		}
		return false
	}
	ok := true
	for i, n0 := 0, 2+r.Intn(2); i < n0; i++ {
		add()
	}
	for ph, phases := 0, 2+r.Intn(2); ph < phases && ok; ph++ {
		ok = settle()
		if !ok {
			break
		}
		if open() > 1 && r.Intn(2) == 0 {
			var ks []int
			for k, l := range lives {
				if l.cg != nil {
					ks = append(ks, k)
				}
			}
			k := ks[r.Intn(len(ks))]
			lives[k].cancel()
			lives[k].cg.Close()
			lives[k].cg = nil
		} else if len(lives) < 4 {
			add()
		}
		time.Sleep(10 * time.Millisecond)
	}
	if ok {
		ok = settle()
	}
	for _, l := range lives {
		if l.cg != nil {
			l.cancel()
			l.cg.Close()
		}
	}
	rec.mu.Lock()
	defer rec.mu.Unlock()
	if !ok || rec.bad || len(rec.obs) == 0 {
		return false
	}
	// insert every round's N event before the first event of its generation
	type ins struct {
		at int
		ev string
	}
	var inserts []ins
	for gid, at := range rec.firstUse {
		ev, has := rec.rosters[gid]
		if !has {
			return false // the leader's JoinGroup answer was never produced (it left first): drop the history
		}
		inserts = append(inserts, ins{at, ev})
	}
	sort.Slice(inserts, func(i, j int) bool { return inserts[i].at < inserts[j].at })
	var evs []string
	j := 0
	for i, e := range rec.events {
		for j < len(inserts) && inserts[j].at == i {
			evs = append(evs, inserts[j].ev)
			j++
		}
		evs = append(evs, e)
	}
	// generation ids are labels: renumber the ones that occur 1, 2, … in ascending order (a generation the coordinator
	// formed but never announced to anybody leaves no trace)
	var gids []int
	for gid := range rec.firstUse {
		gids = append(gids, int(gid))
	}
	sort.Ints(gids)
	line := "ltrace " + fmtParts(cluster) + " " + strings.Join(evs, "|") + "\t" + strings.Join(rec.obs, "|")
	for i, g := range gids {
		line = strings.ReplaceAll(line, fmt.Sprintf("{g%d}", g), fmt.Sprint(i+1))
	}
	if strings.Contains(line, "{g") {
		return false // a SyncGroup of a generation whose JoinGroup answers were never seen
	}
	fmt.Fprintln(out, line)
	return true
}

func simTraceCases(r *rand.Rand, n int) {
	em := 0
	for i := 0; i < n; i++ {
		if simTraceScenario(r) {
			em++
		}
	}
	fmt.Fprintf(os.Stderr, "c14 simtrace: %d of %d histories emitted\n", em, n)
}
