package main

// Life-cycle cases for C14 (Model/GroupRound.lean): several REAL ConsumerGroups (their run goroutines, heartbeats,
// rebalances) against one small in-process group coordinator injected through the verif group hook.  Members join,
// leave and are added; whenever the group is stable every member's Generation.Assignments of the current generation id
// is collected and emitted as one case
//
//	l<balancer> <members of the generation in JoinGroup-response order> <cluster partitions> \t <assignments seen by the applications>
//
// which the oracle treats like a v<balancer> case: cover / only-subscribers / balance / shape on what the applications
// hold, and equality with the model pushed through the glue.  Timing never decides: a phase that does not stabilise in
// time is skipped (counted on stderr), it is not a violation.

import (
	"context"
	"fmt"
	"math/rand"
	"os"
	"sort"
	"strings"
	"sync"
	"time"

	kafka "github.com/segmentio/kafka-go"
)

type lifeMember struct {
	id       string
	owner    int
	topics   []string
	userData []byte // as decoded from the member's real JoinGroup metadata (RackAffinity: its rack)
	joined   bool
}

type lifeCoord struct {
	mu           sync.Mutex
	cond         *sync.Cond
	parts        []kafka.Partition
	racks        map[int]string // owner -> rack
	connOwner    map[int]int
	members      map[string]*lifeMember
	nextID       int
	gen          int32
	pendingRound int
	formedRound  int
	leader       string
	roster       []kafka.VerifGroupMember // members of generation `gen`, response order
	assign       map[string]map[string][]int32
	protocol     string
	stop         chan struct{}
	events       []string // trace for Model/GroupRound (same alphabet as simtrace.go)
	obs          []string
}

func newLifeCoord(parts []kafka.Partition, racks map[int]string) *lifeCoord {
	c := &lifeCoord{parts: parts, racks: racks, connOwner: map[int]int{}, members: map[string]*lifeMember{}, stop: make(chan struct{})}
	c.cond = sync.NewCond(&c.mu)
	go func() { // wake waiters regularly so that deadlines are noticed
		for {
			select {
			case <-c.stop:
				return
			case <-time.After(5 * time.Millisecond):
			}
			c.mu.Lock()
			c.cond.Broadcast()
			c.mu.Unlock()
		}
	}()
	return c
}

func lifeErr(code int) kafka.VerifCoordReply { return kafka.VerifCoordReply{Err: kafka.Error(code)} }

func (c *lifeCoord) startRebalance() {
	if c.pendingRound > c.formedRound {
		return
	}
	c.pendingRound++
	for _, m := range c.members {
		m.joined = false
	}
}

func (c *lifeCoord) stable() bool { return c.pendingRound == c.formedRound && c.assign != nil && len(c.members) > 0 }

func (c *lifeCoord) handle(call kafka.VerifCoordCall) kafka.VerifCoordReply {
	c.mu.Lock()
	defer c.mu.Unlock()
	switch call.Method {
	case "connect":
		k := -1
		for _, a := range call.Addrs {
			fmt.Sscanf(a, "b%d:", &k)
			fmt.Sscanf(a, "coord%d:", &k)
		}
		c.connOwner[call.Conn] = k
		return kafka.VerifCoordReply{}
	case "findCoordinator":
		return kafka.VerifCoordReply{Host: fmt.Sprintf("coord%d", c.connOwner[call.Conn]), Port: 9092}
	case "readPartitions":
		want := map[string]bool{}
		for _, t := range call.Topics {
			want[t] = true
		}
		var ps []kafka.Partition
		for _, p := range c.parts {
			if want[p.Topic] {
				ps = append(ps, p)
			}
		}
		if c.leader != "" {
			tp := make([]part, len(ps))
			for i, p := range ps {
				z := 0
				fmt.Sscanf(p.Leader.Rack, "rack-%d", &z)
				tp[i] = part{topicNo(p.Topic), p.ID, z}
			}
			c.events = append(c.events, "A:"+xid(c.leader)+":"+fmtParts(tp))
		}
		return kafka.VerifCoordReply{Parts: ps}
	case "joinGroup":
		id := call.MemberID
		if id != "" && c.members[id] == nil {
			return lifeErr(25)
		}
		if id == "" {
			c.nextID++
			id = fmt.Sprintf("m%d", c.nextID)
			c.members[id] = &lifeMember{id: id, owner: c.connOwner[call.Conn]}
		}
		m := c.members[id]
		m.topics = call.Topics
		m.userData = call.UserData
		if len(call.Protocols) > 0 {
			c.protocol = call.Protocols[0]
		}
		c.startRebalance()
		m.joined = true
		my := c.pendingRound
		deadline := time.Now().Add(400 * time.Millisecond)
		for c.formedRound < my {
			all := true
			for _, x := range c.members {
				if !x.joined {
					all = false
				}
			}
			if !all && time.Now().After(deadline) { // rebalance timeout: members that did not re-join are evicted
				for xid, x := range c.members {
					if !x.joined {
						delete(c.members, xid)
					}
				}
				all = true
			}
			if all {
				c.formedRound = my
				c.gen++
				c.assign = nil
				ids := make([]string, 0, len(c.members))
				for xid := range c.members {
					ids = append(ids, xid)
				}
				sort.Strings(ids)
				c.leader = ids[0]
				c.roster = nil
				for _, xid := range ids {
					x := c.members[xid]
					c.roster = append(c.roster, kafka.VerifGroupMember{ID: xid, Topics: x.topics, UserData: x.userData})
				}
				rms := make([]member, len(c.roster))
				for i, rm := range c.roster {
					var ts []int
					for _, t := range rm.Topics {
						ts = append(ts, topicNo(t))
					}
					rms[i] = member{rm.ID, 0, ts}
				}
				c.events = append(c.events, fmt.Sprintf("N:%d:%s:%s", c.gen, xid(c.leader), fmtMembers(rms)))
				c.cond.Broadcast()
				break
			}
			c.cond.Wait()
		}
		if c.members[id] == nil {
			return lifeErr(25)
		}
		r := kafka.VerifCoordReply{MemberID: id, GenerationID: c.gen, Protocol: c.protocol, LeaderID: c.leader}
		if id == c.leader {
			r.Members = c.roster
		}
		c.events = append(c.events, "R:"+xid(id), fmt.Sprintf("J:%s:%d", xid(id), c.gen))
		return r
	case "syncGroup":
		if c.members[call.MemberID] == nil {
			return lifeErr(25)
		}
		gen := call.GenerationID
		if gen != c.gen {
			c.events = append(c.events, "R:"+xid(call.MemberID))
			return lifeErr(22)
		}
		if call.MemberID == c.leader && call.Assign != nil && c.assign == nil && c.pendingRound == c.formedRound {
			c.assign = call.Assign
			c.cond.Broadcast()
		}
		deadline := time.Now().Add(400 * time.Millisecond)
		for c.assign == nil && c.gen == gen && c.pendingRound == c.formedRound && time.Now().Before(deadline) {
			c.cond.Wait()
		}
		if c.gen != gen || c.pendingRound != c.formedRound || c.assign == nil {
			c.events = append(c.events, "R:"+xid(call.MemberID))
			return lifeErr(27)
		}
		a := c.assign[call.MemberID]
		if a == nil {
			a = map[string][]int32{}
		}
		kind := "S:"
		if call.Assign != nil {
			kind = "L:"
		}
		c.events = append(c.events, kind+xid(call.MemberID))
		var ts []string
		for t := range a {
			ts = append(ts, t)
		}
		sort.Slice(ts, func(i, j int) bool { return topicNo(ts[i]) < topicNo(ts[j]) })
		var es []string
		for _, t := range ts {
			if len(a[t]) > 0 {
				es = append(es, fmt.Sprintf("%d/%s", topicNo(t), ints32(a[t])))
			}
		}
		o := "-"
		if len(es) > 0 {
			o = strings.Join(es, "+")
		}
		c.obs = append(c.obs, fmt.Sprintf("%s@%d=%s", xid(call.MemberID), gen, o))
		return kafka.VerifCoordReply{Assignments: a}
	case "heartbeat":
		switch {
		case c.members[call.MemberID] == nil:
			return lifeErr(25)
		case call.GenerationID != c.gen:
			return lifeErr(22)
		case c.pendingRound != c.formedRound:
			return lifeErr(27)
		}
		return kafka.VerifCoordReply{}
	case "offsetFetch":
		var cm []kafka.VerifGroupOffset
		for _, t := range call.Topics {
			for _, p := range call.Partitions[t] {
				cm = append(cm, kafka.VerifGroupOffset{Topic: t, Partition: p, Offset: -1})
			}
		}
		return kafka.VerifCoordReply{Committed: cm}
	case "leaveGroup":
		if c.members[call.MemberID] != nil {
			delete(c.members, call.MemberID)
			if len(c.members) > 0 {
				c.startRebalance()
			}
			c.cond.Broadcast()
		}
		return kafka.VerifCoordReply{}
	}
	return kafka.VerifCoordReply{}
}

type lifeReport struct {
	k      int
	gid    int32
	member string
	asg    map[string][]kafka.PartitionAssignment
}

// lifeScenario runs one group history and emits a case per stable phase.
func lifeScenario(r *rand.Rand, op string) (emitted, skipped int) {
	nt := 1 + r.Intn(3)
	racks := 1 + r.Intn(3)
	counts := make([]int, nt)
	for t := range counts {
		counts[t] = 1 + r.Intn(6)
	}
	ps := mkParts(r, counts, racks)
	_, gp := toGo(nil, ps)
	rackOf := map[int]string{}
	coord := newLifeCoord(gp, rackOf)
	kafka.VerifGroupResetConnIDs()
	kafka.VerifSetGroupHandler(coord.handle)
	defer kafka.VerifSetGroupHandler(nil)
	defer close(coord.stop)

	reports := make(chan lifeReport, 256)
	type live struct {
		cg     *kafka.ConsumerGroup
		cancel context.CancelFunc
		topics []int
		zone   int
	}
	var lives []*live
	add := func() {
		k := len(lives)
		var ts []int
		for _, t := range r.Perm(nt) {
			if r.Intn(4) != 0 {
				ts = append(ts, t)
			}
		}
		if len(ts) == 0 {
			ts = []int{r.Intn(nt)}
		}
		if r.Intn(5) == 0 {
			ts = append(ts, ts[0]) // a repeated topic in the configuration
		}
		zone := r.Intn(racks)
		coord.mu.Lock()
		rackOf[k] = zoneName(zone)
		coord.mu.Unlock()
		names := make([]string, len(ts))
		for i, t := range ts {
			names[i] = topicName(t)
		}
		b, _ := map[string]kafka.GroupBalancer{"lrange": kafka.RangeGroupBalancer{}, "lrr": kafka.RoundRobinGroupBalancer{},
			"lrack": kafka.RackAffinityGroupBalancer{Rack: zoneName(zone)}}[op]
		cg, err := kafka.NewConsumerGroup(kafka.ConsumerGroupConfig{
			ID: "grp", Brokers: []string{fmt.Sprintf("b%d:9092", k)}, Topics: names, GroupBalancers: []kafka.GroupBalancer{b},
			HeartbeatInterval: 2 * time.Millisecond, JoinGroupBackoff: 3 * time.Millisecond,
			SessionTimeout: 2 * time.Second, RebalanceTimeout: 2 * time.Second,
		})
		if err != nil {
			fmt.Fprintln(os.Stderr, "c14 life: NewConsumerGroup:", err)
			return
		}
		ctx, cancel := context.WithCancel(context.Background())
		l := &live{cg: cg, cancel: cancel, topics: ts, zone: zone}
		lives = append(lives, l)
		go func() {
			for {
				gen, err := cg.Next(ctx)
				if err != nil {
					if ctx.Err() != nil || err == kafka.ErrGroupClosed {
						return
					}
					continue
				}
				reports <- lifeReport{k, gen.ID, gen.MemberID, gen.Assignments}
				gen.Start(func(ctx context.Context) { <-ctx.Done() })
			}
		}()
	}
	latest := map[string]lifeReport{} // member id -> its latest generation
	lastGen := int32(0)               // generation id of the last emitted phase
	// waitStable: the coordinator is stable and every member of its roster has reported the current generation
	waitStable := func() bool {
		deadline := time.Now().Add(4 * time.Second)
		for time.Now().Before(deadline) {
			select {
			case rep := <-reports:
				latest[rep.member] = rep
			case <-time.After(3 * time.Millisecond):
			}
			coord.mu.Lock()
			ok := coord.stable()
			gen := coord.gen
			roster := append([]kafka.VerifGroupMember(nil), coord.roster...)
			coord.mu.Unlock()
			if !ok || gen <= lastGen {
				continue
			}
			all := true
			for _, m := range roster {
				if rep, has := latest[m.ID]; !has || rep.gid != gen {
					all = false
				}
			}
			if !all {
				continue
			}
			// emit: members in response order (rack = what the coordinator handed the leader), applications' view
			ms := make([]member, len(roster))
			got := kafka.GroupMemberAssignments{}
			for i, m := range roster {
				var ts []int
				for _, t := range m.Topics {
					var n int
					fmt.Sscanf(t, "t%d", &n)
					ts = append(ts, n)
				}
				zone := 0
				fmt.Sscanf(string(m.UserData), "rack-%d", &zone)
				ms[i] = member{m.ID, zone, ts}
				view := map[string][]int{}
				for t, pas := range latest[m.ID].asg {
					for _, pa := range pas {
						view[t] = append(view[t], pa.ID)
					}
				}
				got[m.ID] = view
			}
			fmt.Fprintf(out, "%s %s %s\t%s\n", op, fmtMembers(ms), fmtParts(ps), canon(got))
			lastGen = gen
			return true
		}
		return false
	}
	n0 := 2 + r.Intn(2)
	for i := 0; i < n0; i++ {
		add()
	}
	phases := 2 + r.Intn(2)
	for ph := 0; ph < phases; ph++ {
		if waitStable() {
			emitted++
		} else {
			skipped++
			break
		}
		// next action: a member leaves (Close → LeaveGroup) or a new one joins
		open := []int{}
		for k, l := range lives {
			if l.cg != nil {
				open = append(open, k)
			}
		}
		if len(open) > 1 && r.Intn(2) == 0 {
			k := open[r.Intn(len(open))]
			lives[k].cancel()
			lives[k].cg.Close()
			lives[k].cg = nil
		} else if len(lives) < 5 {
			add()
		}
		// let the coordinator notice before asking for stability again
		time.Sleep(10 * time.Millisecond)
	}
	for _, l := range lives {
		if l.cg != nil {
			l.cancel()
			l.cg.Close()
		}
	}
	// the coordinator's own trace of this history, for the acceptor of Model/GroupRound (heterogeneous subscriptions;
	// RackAffinity's result depends on map orders the trace does not carry: Range and RoundRobin only)
	coord.mu.Lock()
	if op != "lrack" && skipped == 0 && len(coord.obs) > 0 {
		fmt.Fprintf(out, "ltrace2 %s %s %s\t%s\n", op[1:], fmtParts(ps), strings.Join(coord.events, "|"), strings.Join(coord.obs, "|"))
	}
	coord.mu.Unlock()
	return
}

func lifeCases(r *rand.Rand, n int) {
	em, sk := 0, 0
	for i := 0; i < n; i++ {
		e, s := lifeScenario(r, []string{"lrange", "lrr", "lrack"}[i%3])
		em += e
		sk += s
	}
	fmt.Fprintf(os.Stderr, "c14 life: %d phases emitted, %d skipped (not stable in time)\n", em, sk)
	_ = strings.Join
}
