// Driver for property C14: runs the real group balancers of /repo (built with -tags verif) on generated
// groups and prints one line per case: "<op> <members> <parts>\t<implementation output>".
//
//	members  ;-separated  x<hex id>/<zone>/<t,t,…|->      (listing order)
//	parts    ;-separated  <topic>/<partition id>/<zone>    (listing order)
//	output   ;-separated  x<hex id>/<topic>/<p,p,…>        sorted by (id, topic), non-empty lists only
//
// Topics and racks are opaque to the code under test (only compared for equality): topic n is "t<n>",
// rack 0 is the empty string (a member without UserData / a broker without rack), rack n is "rack-<n>".
package main

import (
	"bufio"
	"encoding/hex"
	"fmt"
	"math/rand"
	"os"
	"sort"
	"strconv"
	"strings"

	kafka "github.com/segmentio/kafka-go"

	"kvharness/internal/gen"
)

var out = bufio.NewWriter(os.Stdout)

type member struct {
	id     string
	zone   int
	topics []int
}

type part struct{ topic, id, zone int }

func topicName(t int) string { return "t" + strconv.Itoa(t) }
func zoneName(z int) string {
	if z == 0 {
		return ""
	}
	return "rack-" + strconv.Itoa(z)
}

func ints(xs []int) string {
	if len(xs) == 0 {
		return "-"
	}
	s := make([]string, len(xs))
	for i, x := range xs {
		s[i] = strconv.Itoa(x)
	}
	return strings.Join(s, ",")
}

func fmtMembers(ms []member) string {
	if len(ms) == 0 {
		return "-"
	}
	s := make([]string, len(ms))
	for i, m := range ms {
		s[i] = "x" + hex.EncodeToString([]byte(m.id)) + "/" + strconv.Itoa(m.zone) + "/" + ints(m.topics)
	}
	return strings.Join(s, ";")
}

func fmtParts(ps []part) string {
	if len(ps) == 0 {
		return "-"
	}
	s := make([]string, len(ps))
	for i, p := range ps {
		s[i] = fmt.Sprintf("%d/%d/%d", p.topic, p.id, p.zone)
	}
	return strings.Join(s, ";")
}

func toGo(ms []member, ps []part) ([]kafka.GroupMember, []kafka.Partition) {
	gm := make([]kafka.GroupMember, len(ms))
	for i, m := range ms {
		ts := make([]string, len(m.topics))
		for j, t := range m.topics {
			ts[j] = topicName(t)
		}
		gm[i] = kafka.GroupMember{ID: m.id, Topics: ts, UserData: []byte(zoneName(m.zone))}
	}
	gp := make([]kafka.Partition, len(ps))
	for i, p := range ps {
		gp[i] = kafka.Partition{Topic: topicName(p.topic), ID: p.id, Leader: kafka.Broker{ID: 1 + p.zone, Rack: zoneName(p.zone)}}
	}
	return gm, gp
}

// canon renders the map MemberID => topic => partitions, sorted, empty lists dropped.
func canon(a kafka.GroupMemberAssignments) string {
	ids := make([]string, 0, len(a))
	for id := range a {
		ids = append(ids, id)
	}
	sort.Strings(ids)
	var es []string
	for _, id := range ids {
		var ts []int
		for t := range a[id] {
			n, err := strconv.Atoi(strings.TrimPrefix(t, "t"))
			if err != nil {
				return "bad-topic:" + t
			}
			ts = append(ts, n)
		}
		sort.Ints(ts)
		for _, t := range ts {
			l := a[id][topicName(t)]
			if len(l) == 0 {
				continue
			}
			es = append(es, "x"+hex.EncodeToString([]byte(id))+"/"+strconv.Itoa(t)+"/"+ints(l))
		}
	}
	if len(es) == 0 {
		return "-"
	}
	return strings.Join(es, ";")
}

func call(b kafka.GroupBalancer, ms []member, ps []part) (res string) {
	defer func() {
		if r := recover(); r != nil {
			res = "panic"
		}
	}()
	gm, gp := toGo(ms, ps)
	return canon(b.AssignGroups(gm, gp))
}

// helpers emits the cases for the unexported helpers (through verif_export_c14.go):
//
//	fmbt <members> <topic>      -> ids of findMembersByTopic(members)[topic] in slice order, `,`-separated
//	fparts <topic> <parts>      -> findPartitions(topic, parts)
func helpers(ms []member, ps []part, topics int) {
	gm, gp := toGo(ms, ps)
	{ // xtopics <members> -> extractTopics(members) as topic numbers in ascending numeric order (a set: Go sorts the names)
		var ts []int
		bad := false
		for _, t := range kafka.VerifExtractTopics(gm) {
			n, err := strconv.Atoi(strings.TrimPrefix(t, "t"))
			if err != nil {
				bad = true
			}
			ts = append(ts, n)
		}
		sort.Ints(ts)
		o := ints(ts)
		if bad {
			o = "bad-topic"
		}
		fmt.Fprintf(out, "xtopics %s\t%s\n", fmtMembers(ms), o)
	}
	byTopic := kafka.VerifFindMembersByTopic(gm)
	for t := 0; t < topics; t++ {
		var ids []string
		for _, m := range byTopic[topicName(t)] {
			ids = append(ids, "x"+hex.EncodeToString([]byte(m.ID)))
		}
		o := "-"
		if len(ids) > 0 {
			o = strings.Join(ids, ",")
		}
		fmt.Fprintf(out, "fmbt %s %d\t%s\n", fmtMembers(ms), t, o)
		fmt.Fprintf(out, "fparts %d %s\t%s\n", t, fmtParts(ps), ints(kafka.VerifFindPartitions(topicName(t), gp)))
	}
}

// ---- byte level (Model/GroupWire.lean): the real writers / readers of the two group payloads ----------------------

type entry struct {
	name string
	vals []int32
}

func ints32(xs []int32) string {
	if len(xs) == 0 {
		return "-"
	}
	s := make([]string, len(xs))
	for i, x := range xs {
		s[i] = strconv.Itoa(int(x))
	}
	return strings.Join(s, ",")
}

func fmtEntries(es []entry) string {
	if len(es) == 0 {
		return "-"
	}
	s := make([]string, len(es))
	for i, e := range es {
		s[i] = "x" + hex.EncodeToString([]byte(e.name)) + "=" + ints32(e.vals)
	}
	return strings.Join(s, ";")
}

func hexOr(b []byte) string {
	if len(b) == 0 {
		return "-"
	}
	return hex.EncodeToString(b)
}

// renderAssignment: ok|v<version>|<entries sorted by hex name>|u<hex user data>|r<remain>, or err
func renderAssignment(b []byte) (res string) {
	defer func() {
		if r := recover(); r != nil {
			res = "panic"
		}
	}()
	v, topics, u, remain, err := kafka.VerifC14ReadAssignment(b)
	if err != nil {
		return "err"
	}
	var es []string
	for t, ps := range topics {
		es = append(es, "x"+hex.EncodeToString([]byte(t))+"="+ints32(ps))
	}
	sort.Strings(es)
	e := "-"
	if len(es) > 0 {
		e = strings.Join(es, ";")
	}
	return fmt.Sprintf("ok|v%d|%s|u%s|r%d", v, e, hexOr(u), remain)
}

func renderMetadata(b []byte) (res string) {
	defer func() {
		if r := recover(); r != nil {
			res = "panic"
		}
	}()
	v, topics, u, remain, err := kafka.VerifC14ReadMetadata(b)
	if err != nil {
		return "err"
	}
	ts := make([]string, len(topics))
	for i, t := range topics {
		ts[i] = "x" + hex.EncodeToString([]byte(t))
	}
	e := "-"
	if len(ts) > 0 {
		e = strings.Join(ts, ";")
	}
	return fmt.Sprintf("ok|v%d|%s|u%s|r%d", v, e, hexOr(u), remain)
}

// wire emits the byte-level cases:
//
//	abytes <entries>            -> hex of groupAssignment{1, entries}.bytes()   (Go picks the entry order)
//	aread <hex> <entries|?>     -> what groupAssignment.readFrom makes of the bytes (entries given for intact bytes)
//	mbytes <topics> <userdata>  -> hex of groupMetadata{1, topics, userdata}.bytes()   (userdata: nil | x<hex>)
//	mread <hex> <topics|?> <userdata|?>
func wire(r *rand.Rand, n int) {
	name := func() string {
		switch r.Intn(4) {
		case 0:
			return "t" + strconv.Itoa(r.Intn(12))
		case 1:
			return string(gen.Bytes(r, r.Intn(5)))
		case 2:
			return strings.Repeat("n", 200+r.Intn(200))
		default:
			return "topic-" + strconv.Itoa(r.Intn(1000))
		}
	}
	val := func() int32 {
		switch r.Intn(5) {
		case 0:
			return int32(r.Uint32()) // any int32, negative too
		case 1:
			return []int32{0, -1, 2147483647, -2147483648, 255, 256, 65535, 65536}[r.Intn(8)]
		default:
			return int32(r.Intn(64))
		}
	}
	for k := 0; k < n; k++ {
		ne := r.Intn(5)
		if r.Intn(8) == 0 {
			ne = r.Intn(30)
		}
		seen := map[string]bool{}
		var es []entry
		for len(es) < ne {
			nm := name()
			if seen[nm] {
				continue
			}
			seen[nm] = true
			vs := make([]int32, r.Intn(6))
			for i := range vs {
				vs[i] = val()
			}
			es = append(es, entry{nm, vs})
		}
		m := map[string][]int32{}
		for _, e := range es {
			m[e.name] = e.vals
		}
		b := kafka.VerifC14AssignmentBytes(m)
		fmt.Fprintf(out, "abytes %s\t%s\n", fmtEntries(es), hexOr(b))
		fmt.Fprintf(out, "aread %s %s\t%s\n", hexOr(b), fmtEntries(es), renderAssignment(b))
		if len(b) > 0 { // a cut and a flipped byte: the reader model must make the same of them as the code
			cut := b[:r.Intn(len(b))]
			fmt.Fprintf(out, "aread %s ?\t%s\n", hexOr(cut), renderAssignment(cut))
		}
		// metadata
		nt := r.Intn(5)
		ts := make([]string, nt)
		tsf := make([]string, nt)
		for i := range ts {
			ts[i] = name()
			if i > 0 && r.Intn(5) == 0 {
				ts[i] = ts[r.Intn(i)] // a repeated topic
			}
			tsf[i] = "x" + hex.EncodeToString([]byte(ts[i]))
		}
		tl := "-"
		if nt > 0 {
			tl = strings.Join(tsf, ";")
		}
		var ud []byte
		uds := "nil"
		if r.Intn(3) != 0 {
			ud = []byte(zoneName(r.Intn(4)))
			if ud == nil {
				ud = []byte{}
			}
			uds = "x" + hex.EncodeToString(ud)
		}
		mb := kafka.VerifC14MetadataBytes(ts, ud)
		fmt.Fprintf(out, "mbytes %s %s\t%s\n", tl, uds, hexOr(mb))
		fmt.Fprintf(out, "mread %s %s %s\t%s\n", hexOr(mb), tl, uds, renderMetadata(mb))
		cut := mb[:r.Intn(len(mb))]
		fmt.Fprintf(out, "mread %s ? ?\t%s\n", hexOr(cut), renderMetadata(cut))
	}
}

var protoOf = map[string]string{"grange": "range", "grr": "roundrobin", "grack": "rack-affinity"}

// canon32 renders what the members received (member => topic => partitions), sorted, empty lists dropped.
func canon32(a map[string]map[string][]int32) string {
	g := kafka.GroupMemberAssignments{}
	for id, m := range a {
		g[id] = map[string][]int{}
		for t, ps := range m {
			l := make([]int, len(ps))
			for i, p := range ps {
				l[i] = int(p)
			}
			g[id][t] = l
		}
	}
	return canon(g)
}

// glue runs one whole rebalance round on the real leader glue (verif_export_c14b.go) and emits what every member
// RECEIVES: ops grange / grr / grack with the same request format as range / rr / rack; ops vrange / vrr / vrack emit
// instead what every member ends up with in Generation.Assignments (after fetchOffsets and makeAssignments).  Repeated to sample the
// iteration orders of the Go maps involved (GroupMemberAssignments, the per-member topic maps, RackAffinity's maps);
// every distinct outcome is a case.  members[0] is the leader.
func glue(op string, ms []member, ps []part, repeat int) { glueMissing(op, ms, ps, nil, repeat) }

// glueMissing: ops w<balancer> <members> <parts> <missing topics>: the cluster does not (yet) have the listed topics
// (the Metadata answer carries UnknownTopicOrPartition for them); impl = Generation.Assignments of every member.
func glueMissing(op string, ms []member, ps []part, missing []int, repeat int) {
	if len(ms) == 0 {
		return
	}
	req := op + " " + fmtMembers(ms) + " " + fmtParts(ps)
	var missNames []string
	if op[0] == 'w' {
		req += " " + ints(missing)
		for _, t := range missing {
			missNames = append(missNames, topicName(t))
		}
	}
	_, gp := toGo(ms, ps)
	vm := make([]kafka.VerifC14Member, len(ms))
	for i, m := range ms {
		ts := make([]string, len(m.topics))
		for j, t := range m.topics {
			ts[j] = topicName(t)
		}
		vm[i] = kafka.VerifC14Member{ID: m.id, Topics: ts, Rack: zoneName(m.zone)}
	}
	seen := map[string]bool{}
	for i := 0; i < repeat; i++ {
		o := func() (res string) {
			defer func() {
				if r := recover(); r != nil {
					res = "panic"
				}
			}()
			got, final, _, err := kafka.VerifC14RoundMissing(protoOf["g"+op[1:]], vm, gp, missNames)
			if err != nil {
				return "error"
			}
			if op[0] == 'v' || op[0] == 'w' { // Generation.Assignments after fetchOffsets / makeAssignments
				return canon(kafka.GroupMemberAssignments(final))
			}
			return canon32(got)
		}()
		if !seen[o] {
			seen[o] = true
			fmt.Fprintf(out, "%s\t%s\n", req, o)
		}
	}
}

// run emits the case for the named balancer; RackAffinity is called `repeat` times to sample Go's map
// iteration orders and every distinct output becomes its own case line.
func run(op string, ms []member, ps []part, repeat int) {
	req := op + " " + fmtMembers(ms) + " " + fmtParts(ps)
	switch op {
	case "range":
		fmt.Fprintf(out, "%s\t%s\n", req, call(kafka.RangeGroupBalancer{}, ms, ps))
	case "rr":
		fmt.Fprintf(out, "%s\t%s\n", req, call(kafka.RoundRobinGroupBalancer{}, ms, ps))
	case "rack":
		if len(os.Args) > 1 && os.Args[1] == "norack" {
			return
		}
		seen := map[string]bool{}
		for i := 0; i < repeat; i++ {
			o := call(kafka.RackAffinityGroupBalancer{}, ms, ps)
			if !seen[o] {
				seen[o] = true
				fmt.Fprintf(out, "%s\t%s\n", req, o)
			}
		}
	}
}

var idPool = []string{"a", "ab", "b", "", "a\x00", "B", "member-10", "member-9", "\xff", "\xc3\xa9", "e"}

// pickIDs returns n distinct ids from the pool starting at a rotating offset.
func pickIDs(n, off int) []string {
	ids := make([]string, n)
	for i := range ids {
		ids[i] = idPool[(off+i*3)%len(idPool)]
	}
	return ids
}

func permutations(n int) [][]int {
	if n == 0 {
		return [][]int{{}}
	}
	var res [][]int
	for _, p := range permutations(n - 1) {
		for i := 0; i <= len(p); i++ {
			q := append(append(append([]int{}, p[:i]...), n-1), p[i:]...)
			res = append(res, q)
		}
	}
	return res
}

// subscription listings over two topics: both listing orders of {0,1} and lists that repeat a topic (the list is user
// input, ConsumerGroupConfig.Topics is not de-duplicated)
var subs2 = [][]int{{}, {0}, {1}, {0, 1}, {1, 0}, {0, 0}, {1, 0, 1}}

// mkParts lists counts[t] partitions of each topic t, interleaved at random, ids in a random order
// (so that "listed order" and "id order" differ), leader racks uniform in [0, racks).
func mkParts(r *rand.Rand, counts []int, racks int) []part {
	var ps []part
	for t, c := range counts {
		ids := r.Perm(c)
		if r.Intn(4) == 0 { // sparse ids
			for i := range ids {
				ids[i] = ids[i]*3 + 7
			}
		}
		for _, id := range ids {
			ps = append(ps, part{t, id, r.Intn(racks)})
		}
	}
	r.Shuffle(len(ps), func(i, j int) { ps[i], ps[j] = ps[j], ps[i] })
	return ps
}

func main() {
	defer out.Flush()
	r := gen.New()
	thorough := gen.Thorough()
	rackRepeat, glueRepeat := 4, 3
	if thorough {
		rackRepeat, glueRepeat = 12, 8
	}

	// ---- 1. exhaustive small groups: members ≤ 4, topics ≤ 2, partitions ≤ 6 in total, every subscription
	// pattern, every listing order of the members (n ≤ 3; for n = 4 a sample in the quick tier)
	caseNo := 0
	for n := 1; n <= 4; n++ {
		perms := permutations(n)
		total := 1
		for i := 0; i < n; i++ {
			total *= len(subs2)
		}
		for code := 0; code < total; code++ {
			pat := make([][]int, n)
			c := code
			for i := 0; i < n; i++ {
				pat[i] = subs2[c%len(subs2)]
				c /= len(subs2)
			}
			for p0 := 0; p0 <= 6; p0++ {
				for p1 := 0; p0+p1 <= 6; p1++ {
					if n == 4 && !thorough && r.Intn(6) != 0 {
						continue
					}
					caseNo++
					ids := pickIDs(n, caseNo)
					racks := 1 + r.Intn(3)
					base := make([]member, n)
					for i := 0; i < n; i++ {
						base[i] = member{ids[i], r.Intn(racks), pat[i]}
					}
					ps := mkParts(r, []int{p0, p1}, racks)
					use := perms
					if n == 4 && !thorough {
						use = [][]int{perms[r.Intn(len(perms))], perms[r.Intn(len(perms))]}
					}
					for _, pm := range use {
						ms := make([]member, n)
						for i, j := range pm {
							ms[i] = base[j]
						}
						run("range", ms, ps, 1)
						run("rr", ms, ps, 1)
					}
					if caseNo%7 == 0 {
						helpers(base, ps, 2)
					}
					// RackAffinity depends on the listing order by design: one order per group here
					pm := perms[r.Intn(len(perms))]
					ms := make([]member, n)
					for i, j := range pm {
						ms[i] = base[j]
					}
					run("rack", ms, ps, rackRepeat)
					if n >= 2 || caseNo%3 == 0 {
						op := []string{"grange", "grr", "grack", "vrange", "vrr", "vrack"}[caseNo%6]
						glue(op, ms, ps, glueRepeat)
					}
				}
			}
		}
	}

	// ---- 2. random larger groups
	nLarge := 1200
	if thorough {
		nLarge = 6000
	}
	for k := 0; k < nLarge; k++ {
		n := 1 + r.Intn(12)
		if r.Intn(4) == 0 {
			n = 1 + r.Intn(40)
		}
		nt := 1 + r.Intn(4)
		racks := 1 + r.Intn(4)
		seen := map[string]bool{}
		ms := make([]member, 0, n)
		for len(ms) < n {
			var id string
			switch r.Intn(3) {
			case 0:
				id = "consumer-" + strconv.Itoa(r.Intn(200))
			case 1:
				id = string(gen.Bytes(r, r.Intn(4)))
			default:
				id = "m" + string(gen.Bytes(r, 1+r.Intn(2)))
			}
			if seen[id] {
				continue
			}
			seen[id] = true
			var ts []int
			for _, t := range r.Perm(nt) {
				if r.Intn(4) != 0 {
					ts = append(ts, t)
				}
			}
			if len(ts) > 0 && r.Intn(5) == 0 { // a repeated topic
				ts = append(ts, ts[r.Intn(len(ts))])
			}
			ms = append(ms, member{id, r.Intn(racks), ts})
		}
		counts := make([]int, nt)
		for t := range counts {
			switch r.Intn(4) {
			case 0:
				counts[t] = r.Intn(4)
			case 1:
				counts[t] = n*r.Intn(4) + r.Intn(3) // near multiples of the member count
			default:
				counts[t] = r.Intn(60)
			}
			if thorough && r.Intn(20) == 0 {
				counts[t] = r.Intn(400)
			}
		}
		ps := mkParts(r, counts, racks)
		run("range", ms, ps, 1)
		run("rr", ms, ps, 1)
		run("rack", ms, ps, rackRepeat)
		helpers(ms, ps, nt)
		glue("grange", ms, ps, glueRepeat)
		glue("grr", ms, ps, glueRepeat)
		glue("grack", ms, ps, glueRepeat)
		glue([]string{"vrange", "vrr", "vrack"}[k%3], ms, ps, glueRepeat)
		if k%4 == 0 && nt >= 2 { // one subscribed topic does not exist yet: drop its partitions from the cluster
			miss := r.Intn(nt)
			var ps2 []part
			for _, p := range ps {
				if p.topic != miss {
					ps2 = append(ps2, p)
				}
			}
			glueMissing([]string{"wrange", "wrr", "wrack"}[(k/4)%3], ms, ps2, []int{miss}, 1)
		}
	}

	// ---- 2b. byte level
	nWire := 600
	if thorough {
		nWire = 8000
	}
	wire(r, nWire)

	// ---- 2c. life cycle: real ConsumerGroups, real goroutines, a small coordinator (life.go)
	nLife := 9
	if thorough {
		nLife = 60
	}
	lifeCases(r, nLife)
	nTrace := 6
	if thorough {
		nTrace = 40
	}
	simTraceCases(r, nTrace)

	// the two regression witnesses of finding C14-D30 (Props/C14.lean §5)
	{
		ms := []member{{"m1", 0, []int{0, 0}}, {"m2", 0, []int{0}}}
		var ps []part
		for i := 0; i < 6; i++ {
			ps = append(ps, part{0, i, 0})
		}
		run("range", ms, ps, 1)
		run("rack", []member{{"m7", 0, []int{0, 0}}}, []part{{0, 0, 1}, {0, 1, 1}}, rackRepeat)
	}

	// ---- 3. outside the hypothesis (equal member ids): the property speaks of a set of members; these cases only
	// check that the model still follows the code (oracle: holds=1)
	for k := 0; k < 300; k++ {
		n := 2 + r.Intn(3)
		ids := pickIDs(n, k)
		ms := make([]member, n)
		for i := range ms {
			ms[i] = member{ids[i], 0, subs2[1+r.Intn(6)]}
		}
		ms[1].id = ms[0].id
		racks := 1 + r.Intn(3)
		for i := range ms {
			ms[i].zone = r.Intn(racks)
		}
		ps := mkParts(r, []int{r.Intn(8), r.Intn(8)}, racks)
		run("range", ms, ps, 1)
		run("rr", ms, ps, 1)
		run("rack", ms, ps, rackRepeat)
	}
}
