// What a Writer offers to its Balancer, end to end: a real kafka.Writer over a message-level fake RoundTripper whose
// metadata answer is chosen by the case (topic present or not, topic-level error code, number of partitions).
package main

import (
	"context"
	"errors"
	"fmt"
	"net"
	"strconv"
	"sync"
	"time"

	kafka "github.com/segmentio/kafka-go"
	meta "github.com/segmentio/kafka-go/protocol/metadata"
	"github.com/segmentio/kafka-go/protocol/produce"
)

type offerRT struct {
	mu     sync.Mutex
	found  bool
	code   int
	nparts int
	decoy  bool  // another topic's entry (healthy, 7 partitions) precedes the asked one
	landed []int // partitions of the produce requests received
}

func (f *offerRT) RoundTrip(ctx context.Context, addr net.Addr, req kafka.Request) (kafka.Response, error) {
	switch r := req.(type) {
	case *meta.Request:
		res := &meta.Response{Brokers: []meta.ResponseBroker{{NodeID: 1, Host: "h", Port: 9092}}}
		if f.decoy {
			t := meta.ResponseTopic{Name: "decoy"}
			for i := 0; i < 7; i++ {
				t.Partitions = append(t.Partitions, meta.ResponsePartition{PartitionIndex: int32(i), LeaderID: 1})
			}
			res.Topics = append(res.Topics, t)
		}
		for _, name := range r.TopicNames {
			if !f.found {
				continue
			}
			t := meta.ResponseTopic{Name: name, ErrorCode: int16(f.code)}
			for i := 0; i < f.nparts; i++ {
				t.Partitions = append(t.Partitions, meta.ResponsePartition{PartitionIndex: int32(i), LeaderID: 1})
			}
			res.Topics = append(res.Topics, t)
		}
		return res, nil
	case *produce.Request:
		out := &produce.Response{}
		f.mu.Lock()
		for _, t := range r.Topics {
			rt := produce.ResponseTopic{Topic: t.Topic}
			for _, p := range t.Partitions {
				f.landed = append(f.landed, int(p.Partition))
				rt.Partitions = append(rt.Partitions, produce.ResponsePartition{Partition: p.Partition})
			}
			out.Topics = append(out.Topics, rt)
		}
		f.mu.Unlock()
		return out, nil
	}
	return nil, fmt.Errorf("fake: unexpected request %T", req)
}

// recording wraps a Balancer and notes the partition lists it is offered.
type recording struct {
	inner   kafka.Balancer
	offered [][]int
}

func (b *recording) Balance(m kafka.Message, parts ...int) int {
	b.offered = append(b.offered, append([]int{}, parts...))
	return b.inner.Balance(m, parts...)
}

func builtin(name string) kafka.Balancer {
	switch name {
	case "rr":
		return &kafka.RoundRobin{}
	case "lb":
		return &kafka.LeastBytes{}
	case "hash":
		return &kafka.Hash{}
	case "refhash":
		return &kafka.ReferenceHash{}
	case "crc32":
		return kafka.CRC32Balancer{}
	case "murmur2":
		return kafka.Murmur2Balancer{}
	case "default":
		return nil // the Writer's own round robin
	}
	panic(name)
}

// woffer: one WriteMessages call with one keyed message.  Output: what the call did and what the balancer saw:
//   err:<kafka code>|err:other  offered=<lists>      (no produce request may have been sent)
//   part:<p> offered=<list>                          (p = partition of the produce request)
//   panic offered=<lists>
func woffer(bal string, key []byte, found bool, code, nparts int, decoy bool) string {
	f := &offerRT{found: found, code: code, nparts: nparts, decoy: decoy}
	rec := &recording{inner: builtin(bal)}
	w := &kafka.Writer{Addr: kafka.TCP("fake:9092"), Topic: "t", Transport: f, BatchTimeout: time.Millisecond, MaxAttempts: 1}
	if rec.inner != nil {
		w.Balancer = rec
	}
	res := ""
	func() {
		defer func() {
			if recover() != nil {
				res = "panic"
			}
		}()
		ctx, cancel := context.WithTimeout(context.Background(), 5*time.Second)
		defer cancel()
		err := w.WriteMessages(ctx, kafka.Message{Key: key, Value: []byte("v")})
		var ke kafka.Error
		switch {
		case err == nil:
			f.mu.Lock()
			if len(f.landed) == 1 {
				res = "part:" + strconv.Itoa(f.landed[0])
			} else {
				res = "landed:" + ints(f.landed)
			}
			f.mu.Unlock()
		case errors.As(err, &ke):
			res = "err:" + strconv.Itoa(int(ke))
		default:
			res = "err:other"
		}
	}()
	func() {
		defer func() { recover() }()
		w.Close()
	}()
	if f.mu.Lock(); len(f.landed) > 0 && res[:4] != "part" {
		res += " sent:" + ints(f.landed)
	}
	f.mu.Unlock()
	off := "-"
	if rec.inner == nil {
		off = "n/a"
	} else if len(rec.offered) > 0 {
		off = ""
		for i, o := range rec.offered {
			if i > 0 {
				off += ";"
			}
			off += ints(o)
		}
	}
	return res + " offered=" + off
}

// hashconc: G goroutines share ONE balancer value; each routes its own keys `per` times.  Reported: how many answers
// differ from the answer the same balancer gives to the same key sequentially.
func hashconc(b kafka.Balancer, keys [][]byte, n, per int) string {
	parts := iota(n)
	want := make([]int, len(keys))
	for i, k := range keys {
		want[i] = b.Balance(kafka.Message{Key: k}, parts...)
	}
	var wg sync.WaitGroup
	var mu sync.Mutex
	bad, panics := 0, 0
	for i := range keys {
		wg.Add(1)
		go func(i int) {
			defer wg.Done()
			defer func() {
				if recover() != nil {
					mu.Lock()
					panics++
					mu.Unlock()
				}
			}()
			m := kafka.Message{Key: keys[i]}
			local := 0
			for j := 0; j < per; j++ {
				if b.Balance(m, parts...) != want[i] {
					local++
				}
			}
			mu.Lock()
			bad += local
			mu.Unlock()
		}(i)
	}
	wg.Wait()
	return fmt.Sprintf("mismatch=%d panics=%d", bad, panics)
}
