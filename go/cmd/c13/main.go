// Driver for property C13: runs the real balancers of /repo (built with -tags verif) on generated
// inputs and prints one line per case: "<op> <args…>\t<implementation output>".
package main

import (
	"bufio"
	"encoding/hex"
	"fmt"
	"hash/crc32"
	"hash/fnv"
	"os"
	"sort"
	"strconv"
	"strings"
	"sync"

	kafka "github.com/segmentio/kafka-go"

	"kvharness/internal/gen"
)

var out = bufio.NewWriter(os.Stdout)

func emit(op string, impl string) { fmt.Fprintf(out, "%s\t%s\n", op, impl) }

func ints(xs []int) string {
	if len(xs) == 0 {
		return "-"
	}
	s := make([]string, len(xs))
	for i, x := range xs {
		s[i] = strconv.Itoa(x)
	}
	return strings.Join(s, ",")
}

func iota(n int) []int {
	p := make([]int, n)
	for i := range p {
		p[i] = i
	}
	return p
}

// call runs f k times, recovering panics ("panic").
func calls(k int, f func() int) (res []int, panicked bool) {
	defer func() {
		if recover() != nil {
			panicked = true
		}
	}()
	for i := 0; i < k; i++ {
		res = append(res, f())
	}
	return
}

// observe renders k calls; when the answers vary (random fallback) it prints "random" provided all were offered.
func observe(k int, parts []int, mayVary bool, f func() int) string {
	res, p := calls(k, f)
	if p {
		return "panic"
	}
	same := true
	for _, x := range res {
		if x != res[0] {
			same = false
		}
	}
	if mayVary && !same {
		set := map[int]bool{}
		for _, q := range parts {
			set[q] = true
		}
		for _, x := range res {
			if !set[x] {
				return "random-not-offered:" + strconv.Itoa(x)
			}
		}
		return "random"
	}
	return ints(res)
}

func main() {
	defer out.Flush()
	r := gen.New()
	thorough := gen.Thorough()
	nKeys := 400
	if thorough {
		nKeys = 6000
	}

	// keys: every length 0..40 (all lengths mod 4, several blocks), then random lengths; nil and empty
	var keys [][]byte
	keys = append(keys, nil, []byte{})
	for l := 1; l <= 40; l++ {
		keys = append(keys, gen.Bytes(r, l))
	}
	for _, s := range []string{"kafka", "giberish123456789", "1234", "a", "ab", "abc", "123456789", "\x00 ", "blah", "blah blah"} {
		keys = append(keys, []byte(s))
	}
	for len(keys) < nKeys {
		l := r.Intn(70)
		if r.Intn(10) == 0 {
			l = r.Intn(5000)
		}
		keys = append(keys, gen.Bytes(r, l))
	}
	counts := []int{1, 2, 3, 4, 5, 7, 8, 12, 16, 31, 32, 33, 100, 127, 128, 129, 1000, 65536}
	bigCounts := []int{1 << 20, (1 << 31) - 1} // only meaningful for index-returning balancers

	for i, k := range keys {
		if k != nil {
			emit("murmur2 "+gen.Hex(k), strconv.FormatUint(uint64(kafka.VerifMurmur2(k)), 10))
			h := fnv.New32a()
			h.Write(k)
			emit("fnv1a "+gen.Hex(k), strconv.FormatUint(uint64(h.Sum32()), 10))
			emit("crc32 "+gen.Hex(k), strconv.FormatUint(uint64(crc32.ChecksumIEEE(k)), 10))
		}
		n := counts[(i+r.Intn(3))%len(counts)]
		msg := kafka.Message{Key: k}
		parts := iota(n)
		const K = 24
		// Hash / ReferenceHash: the Writer's partition list [0..n)
		{
			hb := &kafka.Hash{}
			emit(fmt.Sprintf("hash %s %d %d", gen.Key(k), n, K), observe(K, parts, false, func() int { return hb.Balance(msg, parts...) }))
			rb := &kafka.ReferenceHash{}
			emit(fmt.Sprintf("refhash %s %d %d", gen.Key(k), n, K), observe(K, parts, true, func() int { return rb.Balance(msg, parts...) }))
			if k != nil && i%50 == 0 {
				for _, bn := range bigCounts {
					// index-returning balancers do not touch the slice beyond len(): fake a huge length cheaply
					// is impossible in Go, so use the arithmetic only through a real (smaller) slice when feasible
					if bn <= 1<<20 {
						bp := iota(bn)
						emit(fmt.Sprintf("hash %s %d %d", gen.Key(k), bn, 1), observe(1, bp, false, func() int { return hb.Balance(msg, bp...) }))
						emit(fmt.Sprintf("refhash %s %d %d", gen.Key(k), bn, 1), observe(1, bp, true, func() int { return rb.Balance(msg, bp...) }))
					}
				}
			}
		}
		// CRC32 / Murmur2: arbitrary partition id lists (sorted distinct ids, sometimes shifted / sparse)
		{
			ps := iota(n)
			switch r.Intn(3) {
			case 1:
				for j := range ps {
					ps[j] = ps[j]*3 + 5
				}
			case 2:
				for j := range ps {
					ps[j] += 1000
				}
			}
			if n > 2000 {
				ps = ps[:2000]
			}
			for _, cons := range []bool{false, true} {
				c := "0"
				if cons {
					c = "1"
				}
				cb := kafka.CRC32Balancer{Consistent: cons}
				emit(fmt.Sprintf("crc32b %s %s %s %d", c, gen.Key(k), ints(ps), K), observe(K, ps, true, func() int { return cb.Balance(msg, ps...) }))
				mb := kafka.Murmur2Balancer{Consistent: cons}
				emit(fmt.Sprintf("murmur2b %s %s %s %d", c, gen.Key(k), ints(ps), K), observe(K, ps, true, func() int { return mb.Balance(msg, ps...) }))
			}
		}
	}

	// user-supplied Hasher: one balancer value used for a sequence of different keys (hasher state carried by the
	// object), with the real FNV-1a; and a stub Hasher returning chosen sums (sign boundaries of int32)
	nseq := 40
	if thorough {
		nseq = 600
	}
	for i := 0; i < nseq; i++ {
		n := counts[r.Intn(len(counts)-2)]
		if i%5 == 0 {
			n = 3 + r.Intn(5)
		}
		parts := iota(n)
		cnt := 2 + r.Intn(6)
		ks := make([]string, cnt)
		hb := &kafka.Hash{Hasher: fnv.New32a()}
		rb := &kafka.ReferenceHash{Hasher: fnv.New32a()}
		var hres, rres []int
		for j := 0; j < cnt; j++ {
			k := keys[2+r.Intn(len(keys)-2)]
			if len(k) == 0 {
				k = []byte{byte(j)}
			}
			if j > 0 && r.Intn(3) == 0 {
				k = append([]byte{}, hexBytes(ks[j-1])...) // same key twice in a row
			}
			ks[j] = gen.Hex(k)
			hres = append(hres, hb.Balance(kafka.Message{Key: k}, parts...))
			rres = append(rres, rb.Balance(kafka.Message{Key: k}, parts...))
		}
		emit(fmt.Sprintf("hashseq %d %s", n, strings.Join(ks, ",")), ints(hres))
		emit(fmt.Sprintf("refhashseq %d %s", n, strings.Join(ks, ",")), ints(rres))
	}
	sums := []uint32{0, 1, 2, 0x7ffffffe, 0x7fffffff, 0x80000000, 0x80000001, 0x80000002, 0xfffffffe, 0xffffffff, 0x811c9dc5, 0xc0000000, 0x40000000}
	for len(sums) < 60 {
		sums = append(sums, r.Uint32())
	}
	for _, sum := range sums {
		for _, n := range []int{1, 2, 3, 5, 7, 12, 100, 1 << 16, 1<<20 + 7} {
			parts := iota(n)
			st := &stubHasher{sum: sum}
			emit(fmt.Sprintf("hashsum %d %d", sum, n), observe(1, parts, false, func() int { return (&kafka.Hash{Hasher: st}).Balance(kafka.Message{Key: []byte("k")}, parts...) }))
			emit(fmt.Sprintf("refhashsum %d %d", sum, n), observe(1, parts, false, func() int {
				return (&kafka.ReferenceHash{Hasher: st}).Balance(kafka.Message{Key: []byte("k")}, parts...)
			}))
		}
	}

	// RoundRobin: chunk sizes (incl. < 1), partition lists, starting points incl. just before 2^32 and 2^63 calls (the 64-bit counter itself is not driven across 2^64)
	chunks := []int{-3, 0, 1, 2, 3, 5, 12, 64}
	starts := []uint64{0, 1, 7, 1 << 16, (1 << 32) - 1, (1 << 32) - 2, (1 << 32) - 5, (1 << 32) - 13, (1 << 32) + 3, 1 << 40,
		(1 << 63) - 3, (1 << 64) - 100}
	nrr := 60
	if thorough {
		nrr = 1500
	}
	for i := 0; i < nrr; i++ {
		ch := chunks[r.Intn(len(chunks))]
		st := starts[r.Intn(len(starts))]
		if i%3 == 0 {
			st = 0
		}
		n := 1 + r.Intn(7)
		ps := iota(n)
		if r.Intn(2) == 0 {
			for j := range ps {
				ps[j] = ps[j]*2 + 10
			}
		}
		k := 1 + r.Intn(40)
		rr := &kafka.RoundRobin{ChunkSize: ch}
		kafka.VerifSetRoundRobinCalls(rr, st, len(ps))
		emit(fmt.Sprintf("rr %d %d %s %d", ch, st, ints(ps), k), observe(k, ps, false, func() int { return rr.Balance(kafka.Message{}, ps...) }))
	}

	// RoundRobin with a partition list that CHANGES between calls (a Writer without a fixed Topic routes messages of
	// topics of different widths through one balancer): lists grow and shrink, also in the middle of a chunk
	nrv := 60
	if thorough {
		nrv = 1500
	}
	for i := 0; i < nrv; i++ {
		ch := chunks[r.Intn(len(chunks))]
		k := 2 + r.Intn(30)
		ns := make([]int, k)
		cur := 1 + r.Intn(8)
		for j := range ns {
			switch r.Intn(5) {
			case 0:
				cur = 1 + r.Intn(8)
			case 1:
				if cur > 1 {
					cur = 1 + r.Intn(cur-1) // shrink
				}
			}
			ns[j] = cur
		}
		rr := &kafka.RoundRobin{ChunkSize: ch}
		res, panicked := []int{}, false
		func() {
			defer func() {
				if recover() != nil {
					panicked = true
				}
			}()
			for _, n := range ns {
				res = append(res, rr.Balance(kafka.Message{}, iota(n)...))
			}
		}()
		o := ints(res)
		if panicked {
			o = ints(res) + ",panic"
		}
		emit(fmt.Sprintf("rrvar %d %s", ch, ints(ns)), o)
	}

	// LeastBytes: size sequences with a fixed list (unsorted lists too: the counters are sorted by id)
	nlb := 80
	if thorough {
		nlb = 2000
	}
	for i := 0; i < nlb; i++ {
		n := 1 + r.Intn(6)
		ps := r.Perm(n)
		if r.Intn(3) == 0 {
			for j := range ps {
				ps[j] = ps[j]*7 + 3
			}
		}
		k := 1 + r.Intn(30)
		sizes := make([]int, k)
		lb := &kafka.LeastBytes{}
		res, panicked := []int{}, false
		func() {
			defer func() {
				if recover() != nil {
					panicked = true
				}
			}()
			for j := range sizes {
				ks, vs := r.Intn(20), r.Intn(50)
				if r.Intn(4) == 0 {
					ks, vs = 0, 0
				}
				sizes[j] = ks + vs
				res = append(res, lb.Balance(kafka.Message{Key: make([]byte, ks), Value: make([]byte, vs)}, ps...))
			}
		}()
		o := ints(res)
		if panicked {
			o = "panic"
		}
		emit(fmt.Sprintf("lb %s %s", ints(ps), ints(sizes)), o)
	}

	// the list a Writer offers
	for _, n := range []int{0, 1, 2, 127, 128, 129, 300, 5, 1000, 3} {
		p := kafka.VerifLoadCachedPartitions(n)
		o := "iota"
		if len(p) != n {
			o = "len=" + strconv.Itoa(len(p))
		}
		for j, x := range p {
			if x != j {
				o = "other:" + ints(p)
				break
			}
		}
		emit(fmt.Sprintf("cached %d", n), o)
	}

	// concurrent use: the multiset of answers equals that of the same number of sequential calls
	nconc := 6
	if thorough {
		nconc = 60
	}
	for i := 0; i < nconc; i++ {
		n := 2 + r.Intn(5)
		g, per := 2+r.Intn(7), 50+r.Intn(200)
		if i%2 == 1 {
			g, per = 8+r.Intn(9), 20000+r.Intn(20000) // long contended runs: lost updates need many overlaps to show
		}
		ch := chunks[2+r.Intn(len(chunks)-2)]
		parts := iota(n)
		rr := &kafka.RoundRobin{ChunkSize: ch}
		emit(fmt.Sprintf("rrconc %d %d %d", ch, n, g*per), concurrent(g, per, n, func() int { return rr.Balance(kafka.Message{}, parts...) }))
		lb := &kafka.LeastBytes{}
		sz := 1 + r.Intn(9)
		m := kafka.Message{Value: make([]byte, sz)}
		emit(fmt.Sprintf("lbconc %d %d %d", n, g*per, sz), concurrent(g, per, n, func() int { return lb.Balance(m, parts...) }))
	}

	// key-hashing balancers shared by concurrent callers: every answer equals the sequential one (pure function of key
	// and count).  Long keys widen the Reset/Write/Sum32 window of a hasher that is not exclusively owned.
	nhc := 4
	if thorough {
		nhc = 40
	}
	for i := 0; i < nhc; i++ {
		n := 3 + r.Intn(60)
		g := 8 + r.Intn(25)
		per := 3000 + r.Intn(3000)
		ks := make([][]byte, g)
		for j := range ks {
			ks[j] = gen.Bytes(r, 1+r.Intn(40))
			if j%3 == 0 {
				ks[j] = gen.Bytes(r, 200+r.Intn(1800))
			}
		}
		for _, v := range []struct {
			name string
			b    kafka.Balancer
		}{
			{"hash-pool", &kafka.Hash{}}, {"refhash-pool", &kafka.ReferenceHash{}},
			{"hash-custom", &kafka.Hash{Hasher: fnv.New32a()}}, {"refhash-custom", &kafka.ReferenceHash{Hasher: fnv.New32a()}},
			{"crc32", kafka.CRC32Balancer{Consistent: true}}, {"murmur2", kafka.Murmur2Balancer{Consistent: true}},
		} {
			emit(fmt.Sprintf("hashconc %s %d %d %d", v.name, n, g, per), hashconc(v.b, ks, n, per))
		}
	}
	if os.Getenv("C13_CONC_ONLY") != "" {
		return
	}

	// what the Writer offers its balancer, through a real Writer: metadata answers with / without the topic, with a
	// topic-level error code, with n partitions
	codes := []int{0, 0, 0, 3, 5, 6, 9, 17, 29}
	nw := 60
	if thorough {
		nw = 600
	}
	bals := []string{"rr", "lb", "hash", "refhash", "crc32", "murmur2", "default"}
	for i := 0; i < nw; i++ {
		bal := bals[i%len(bals)]
		code := codes[r.Intn(len(codes))]
		found := r.Intn(8) != 0
		n := 1 + r.Intn(9)
		if code != 0 && r.Intn(3) != 0 {
			n = 0 // a topic entry with an error normally lists no partition
		}
		k := gen.Bytes(r, 1+r.Intn(24))
		decoy := r.Intn(3) == 0
		d := 0
		if decoy {
			d = 1
		}
		f := 0
		if found {
			f = 1
		}
		emit(fmt.Sprintf("woffer %s %s %d %d %d %d", bal, gen.Hex(k), f, code, n, d), woffer(bal, k, found, code, n, decoy))
	}
}

// stubHasher is a hash.Hash32 whose Sum32 is fixed.
type stubHasher struct{ sum uint32 }

func (s *stubHasher) Write(p []byte) (int, error) { return len(p), nil }
func (s *stubHasher) Sum(b []byte) []byte         { return b }
func (s *stubHasher) Reset()                      {}
func (s *stubHasher) Size() int                   { return 4 }
func (s *stubHasher) BlockSize() int              { return 1 }
func (s *stubHasher) Sum32() uint32               { return s.sum }

func hexBytes(s string) []byte {
	if s == "-" {
		return []byte{}
	}
	b, _ := hex.DecodeString(s)
	return b
}

func concurrent(g, per, n int, f func() int) string {
	var wg sync.WaitGroup
	var mu sync.Mutex
	counts := make([]int, n)
	bad := []int{}
	for i := 0; i < g; i++ {
		wg.Add(1)
		go func() {
			defer wg.Done()
			local := make([]int, 0, per)
			for j := 0; j < per; j++ {
				local = append(local, f())
			}
			mu.Lock()
			for _, x := range local {
				if x < 0 || x >= n {
					bad = append(bad, x)
				} else {
					counts[x]++
				}
			}
			mu.Unlock()
		}()
	}
	wg.Wait()
	if len(bad) > 0 {
		sort.Ints(bad)
		return "not-offered:" + ints(bad)
	}
	return ints(counts)
}
