// Package fieldmap extracts, with go/ast only, the field-to-field copies a mapping function performs: for every
// composite literal of a named struct type inside the function, the list of (destination field, canonical source
// expression).  Source expressions are rendered with every local identifier replaced by `_` (selectors keep their
// field names, called functions and conversions keep their names), so renaming locals, parameters or loop
// variables changes nothing.
package fieldmap

import (
	"fmt"
	"go/ast"
	"go/parser"
	"go/token"
	"sort"
	"strings"
)

type Pair struct{ Field, Source string }

// Render gives the canonical form of a source expression.
func Render(e ast.Expr) string {
	switch x := e.(type) {
	case *ast.Ident:
		switch x.Name {
		case "nil", "true", "false":
			return x.Name
		}
		if x.Name != "" && x.Name[0] >= 'A' && x.Name[0] <= 'Z' {
			return x.Name // an exported package-level constant / variable (locals are not capitalised)
		}
		return "_"
	case *ast.BasicLit:
		return x.Value
	case *ast.SelectorExpr:
		return Render(x.X) + "." + x.Sel.Name
	case *ast.IndexExpr:
		return Render(x.X) + "[" + Render(x.Index) + "]"
	case *ast.ParenExpr:
		return Render(x.X)
	case *ast.StarExpr:
		return "*" + Render(x.X)
	case *ast.UnaryExpr:
		return x.Op.String() + Render(x.X)
	case *ast.BinaryExpr:
		return Render(x.X) + x.Op.String() + Render(x.Y)
	case *ast.CallExpr:
		fn := "?"
		switch f := x.Fun.(type) {
		case *ast.Ident:
			fn = f.Name // conversions and package-level functions keep their name
		case *ast.SelectorExpr:
			fn = Render(f.X) + "." + f.Sel.Name
		case *ast.ArrayType, *ast.MapType:
			fn = "conv"
		}
		if fn == "make" {
			return "make(…)"
		}
		args := make([]string, len(x.Args))
		for i, a := range x.Args {
			args[i] = Render(a)
		}
		return fn + "(" + strings.Join(args, ",") + ")"
	case *ast.CompositeLit:
		return typeName(x.Type) + "{…}"
	case *ast.FuncLit:
		return "func"
	}
	return "?"
}

func typeName(e ast.Expr) string {
	switch t := e.(type) {
	case *ast.Ident:
		return t.Name
	case *ast.SelectorExpr:
		return t.Sel.Name // package qualifier (an import alias) dropped
	case *ast.StarExpr:
		return typeName(t.X)
	case *ast.ArrayType:
		return "[]" + typeName(t.Elt)
	case *ast.MapType:
		return "map"
	case nil:
		return ""
	}
	return "?"
}

func recvName(fd *ast.FuncDecl) string {
	if fd.Recv == nil || len(fd.Recv.List) != 1 {
		return ""
	}
	return typeName(fd.Recv.List[0].Type)
}

// Of returns, for the function (recv may be ""), type name → pairs sorted by field, for every keyed composite
// literal of a named struct type in its body (nested function literals included).  When a type is built more
// than once the literals must agree, otherwise the type maps to a single pair ("!", "ambiguous").
func Of(path, recv, fn string) (map[string][]Pair, error) {
	fset := token.NewFileSet()
	f, err := parser.ParseFile(fset, path, nil, 0)
	if err != nil {
		return nil, err
	}
	for _, d := range f.Decls {
		fd, ok := d.(*ast.FuncDecl)
		if !ok || fd.Body == nil || fd.Name.Name != fn || recvName(fd) != recv {
			continue
		}
		out := map[string][]Pair{}
		ast.Inspect(fd.Body, func(n ast.Node) bool {
			cl, ok := n.(*ast.CompositeLit)
			if !ok {
				return true
			}
			name := typeName(cl.Type)
			if name == "" || strings.HasPrefix(name, "[]") || name == "map" {
				return true
			}
			var ps []Pair
			for _, el := range cl.Elts {
				kv, ok := el.(*ast.KeyValueExpr)
				if !ok {
					return true
				}
				k, ok := kv.Key.(*ast.Ident)
				if !ok {
					return true
				}
				ps = append(ps, Pair{k.Name, Render(kv.Value)})
			}
			if len(ps) == 0 {
				return true
			}
			sort.Slice(ps, func(i, j int) bool { return ps[i].Field < ps[j].Field })
			if old, ok := out[name]; ok && fmt.Sprint(old) != fmt.Sprint(ps) {
				out[name] = []Pair{{"!", "ambiguous"}}
			} else {
				out[name] = ps
			}
			return true
		})
		return out, nil
	}
	return nil, fmt.Errorf("%s: function %s.%s not found", path, recv, fn)
}

// SwitchAssigns returns, for every `switch <x>.<tagField> { … }` in the function (source order), the rows
// "case-label|destination|source" of the single assignments in its case bodies (labels are the case constants'
// names, "default" for the default clause; expressions canonicalised like Render).
func SwitchAssigns(path, recv, fn, tagField string) ([][]string, error) {
	fset := token.NewFileSet()
	f, err := parser.ParseFile(fset, path, nil, 0)
	if err != nil {
		return nil, err
	}
	for _, d := range f.Decls {
		fd, ok := d.(*ast.FuncDecl)
		if !ok || fd.Body == nil || fd.Name.Name != fn || recvName(fd) != recv {
			continue
		}
		var out [][]string
		ast.Inspect(fd.Body, func(n ast.Node) bool {
			sw, ok := n.(*ast.SwitchStmt)
			if !ok || sw.Tag == nil {
				return true
			}
			sel, ok := sw.Tag.(*ast.SelectorExpr)
			if !ok || sel.Sel.Name != tagField {
				return true
			}
			var rows []string
			for _, cl := range sw.Body.List {
				cc := cl.(*ast.CaseClause)
				labels := []string{"default"}
				if cc.List != nil {
					labels = nil
					for _, e := range cc.List {
						if id, ok := e.(*ast.Ident); ok {
							labels = append(labels, id.Name)
						} else {
							labels = append(labels, Render(e))
						}
					}
				}
				for _, st := range cc.Body {
					as, ok := st.(*ast.AssignStmt)
					if !ok || len(as.Lhs) != 1 || len(as.Rhs) != 1 {
						rows = append(rows, strings.Join(labels, ",")+"|?|?")
						continue
					}
					rows = append(rows, strings.Join(labels, ",")+"|"+Render(as.Lhs[0])+"|"+Render(as.Rhs[0]))
				}
			}
			out = append(out, rows)
			return true
		})
		return out, nil
	}
	return nil, fmt.Errorf("%s: function %s.%s not found", path, recv, fn)
}

// Statements lists, in source order, the canonical forms of the decisions and field updates of a function:
// "if <cond>" for every if / else-if condition (init statements rendered as "<lhs> := <rhs>; "), "set <lhs> = <rhs>"
// for every assignment whose destination is a field or an indexed element, "inc"/"dec" for ++/--.
func Statements(path, recv, fn string) ([]string, error) {
	fset := token.NewFileSet()
	f, err := parser.ParseFile(fset, path, nil, 0)
	if err != nil {
		return nil, err
	}
	for _, d := range f.Decls {
		fd, ok := d.(*ast.FuncDecl)
		if !ok || fd.Body == nil || fd.Name.Name != fn || recvName(fd) != recv {
			continue
		}
		var out []string
		ast.Inspect(fd.Body, func(n ast.Node) bool {
			switch x := n.(type) {
			case *ast.IfStmt:
				out = append(out, "if "+Render(x.Cond))
			case *ast.AssignStmt:
				if len(x.Lhs) == 1 && len(x.Rhs) == 1 {
					switch x.Lhs[0].(type) {
					case *ast.SelectorExpr, *ast.IndexExpr:
						out = append(out, "set "+Render(x.Lhs[0])+" "+x.Tok.String()+" "+Render(x.Rhs[0]))
					}
				}
			case *ast.IncDecStmt:
				out = append(out, x.Tok.String())
			}
			return true
		})
		return out, nil
	}
	return nil, fmt.Errorf("%s: function %s.%s not found", path, recv, fn)
}

// SliceInit tells how the first local slice of element type elem is introduced in the function: "nil" for
// `var x []elem` (or `x := []elem(nil)`), "empty" for a composite literal / make, "other" otherwise.
func SliceInit(path, recv, fn, elem string) (string, error) {
	fset := token.NewFileSet()
	f, err := parser.ParseFile(fset, path, nil, 0)
	if err != nil {
		return "", err
	}
	isSlice := func(e ast.Expr) bool {
		at, ok := e.(*ast.ArrayType)
		return ok && at.Len == nil && typeName(at.Elt) == elem
	}
	for _, d := range f.Decls {
		fd, ok := d.(*ast.FuncDecl)
		if !ok || fd.Body == nil || fd.Name.Name != fn || recvName(fd) != recv {
			continue
		}
		res := ""
		ast.Inspect(fd.Body, func(n ast.Node) bool {
			if res != "" {
				return false
			}
			switch x := n.(type) {
			case *ast.DeclStmt:
				if gd, ok := x.Decl.(*ast.GenDecl); ok && gd.Tok == token.VAR {
					for _, sp := range gd.Specs {
						vs := sp.(*ast.ValueSpec)
						if vs.Type != nil && isSlice(vs.Type) {
							if len(vs.Values) == 0 {
								res = "nil"
							} else {
								res = "other"
							}
						}
					}
				}
			case *ast.AssignStmt:
				if x.Tok == token.DEFINE && len(x.Rhs) == 1 {
					switch r := x.Rhs[0].(type) {
					case *ast.CompositeLit:
						if isSlice(r.Type) {
							res = "empty"
						}
					case *ast.CallExpr:
						if id, ok := r.Fun.(*ast.Ident); ok && id.Name == "make" && len(r.Args) > 0 && isSlice(r.Args[0]) {
							res = "empty"
						}
						if isSlice(r.Fun) {
							res = "nil"
						}
					}
				}
			}
			return true
		})
		if res == "" {
			return "", fmt.Errorf("%s: %s.%s: no local []%s", path, recv, fn, elem)
		}
		return res, nil
	}
	return "", fmt.Errorf("%s: function %s.%s not found", path, recv, fn)
}
