package connfake

// TBroker: a stateful single-broker fake (one topic, one partition) speaking the wire protocol on net.Pipe
// connections handed out by Dial — usable as kafka.Transport.Dial and as kafka.Dialer.DialFunc (Reader).
// It keeps a journal PER CONNECTION (which requests arrived on which connection, whether/where the connection was
// cut) and can cut the response to the n-th request of one api key after k bytes, closing that connection.
// Requests are decoded with protocol.ReadRequest and answered with protocol.WriteResponse, except fetch responses,
// which are laid out by hand (the package's record-set encoder always writes base offset 0).

import (
	"bytes"
	"context"
	"fmt"
	"io"
	"net"
	"strings"
	"sync"
	"time"

	"github.com/segmentio/kafka-go/protocol"
	"github.com/segmentio/kafka-go/protocol/apiversions"
	"github.com/segmentio/kafka-go/protocol/describeconfigs"
	"github.com/segmentio/kafka-go/protocol/describegroups"
	"github.com/segmentio/kafka-go/protocol/fetch"
	"github.com/segmentio/kafka-go/protocol/findcoordinator"
	"github.com/segmentio/kafka-go/protocol/heartbeat"
	"github.com/segmentio/kafka-go/protocol/listgroups"
	"github.com/segmentio/kafka-go/protocol/listoffsets"
	"github.com/segmentio/kafka-go/protocol/metadata"
	"github.com/segmentio/kafka-go/protocol/produce"
)

type TConn struct {
	No        int
	Keys      []int16 // api key of every request received, in order
	Seqs      []int   // broker-wide arrival number of every request received
	CutAt     int     // -1: never cut
	FrameLens []int   // length of every response frame produced on this connection
}

type TBroker struct {
	ID       int32     // broker id (1 for a stand-alone broker)
	cluster  *TCluster // nil for a stand-alone broker
	Topic    string
	MaxVer   map[int16]int16
	FetchMax int // records per fetch response

	mu    sync.Mutex
	conns []*TConn
	log   []Msg
	stall bool
	// unapplied: the request whose response is cut is lost before the broker applied it (a produce request is not
	// appended to the log): only a retry that carries the records again gets them stored
	unapplied bool
	dropThis  bool  // set by serve for the request at hand
	prodRecs  []int // records carried by each produce request, in arrival order
	cutKey    int16
	cutNth    int // 1-based count over all connections; 0 = no cut
	cutAt     int
	seen      map[int16]int
	lastLen   map[int16]int // length of the last complete response frame per api key
	seq       int
	cutTs     int64           // timestamp field of the list-offsets request whose response was cut (0 if none / other api)
	lens      map[int16][]int // lengths of all response frames per api key, in order of arrival
}

func NewTBroker(topic string) *TBroker {
	return &TBroker{ID: 1, Topic: topic, FetchMax: 4, seen: map[int16]int{}, lastLen: map[int16]int{}, lens: map[int16][]int{},
		MaxVer: map[int16]int16{0: 7, 1: 10, 2: 1, 3: 6, 10: 1, 12: 1, 15: 4, 16: 2, 18: 0, 32: 1}}
}

// SetUnapplied: the request whose response is cut is not applied by the broker.
func (b *TBroker) SetUnapplied(on bool) {
	b.mu.Lock()
	b.unapplied = on
	b.mu.Unlock()
}

// ProduceRecords: how many records each produce request carried, in arrival order.
func (b *TBroker) ProduceRecords() []int {
	b.mu.Lock()
	defer b.mu.Unlock()
	return append([]int(nil), b.prodRecs...)
}

// SetStall: a cut response is followed by silence instead of a dropped connection.
func (b *TBroker) SetStall(on bool) {
	b.mu.Lock()
	b.stall = on
	b.mu.Unlock()
}

// Cut arms the fault: the response to the nth request (from now on) with this api key is cut after k bytes.
func (b *TBroker) Cut(key int16, nth, k int) {
	if b.cluster != nil {
		b.cluster.Cut(key, nth, k)
		return
	}
	b.mu.Lock()
	b.cutKey, b.cutNth, b.cutAt = key, nth, k
	b.seen = map[int16]int{}
	b.mu.Unlock()
}

func (b *TBroker) Append(m Msg) {
	b.mu.Lock()
	m.Offset = int64(len(b.log))
	b.log = append(b.log, m)
	b.mu.Unlock()
}

func (b *TBroker) Log() []Msg {
	b.mu.Lock()
	defer b.mu.Unlock()
	return append([]Msg(nil), b.log...)
}

func (b *TBroker) Conns() []TConn {
	b.mu.Lock()
	defer b.mu.Unlock()
	out := make([]TConn, len(b.conns))
	for i, c := range b.conns {
		out[i] = *c
		out[i].Keys = append([]int16(nil), c.Keys...)
		out[i].Seqs = append([]int(nil), c.Seqs...)
	}
	return out
}

// FrameLenNth is the length of the response frame to the nth request (1-based) with this api key.
func (b *TBroker) FrameLenNth(key int16, nth int) int {
	b.mu.Lock()
	defer b.mu.Unlock()
	if nth >= 1 && nth <= len(b.lens[key]) {
		return b.lens[key][nth-1]
	}
	return 0
}

// CutTimestamp is the timestamp asked by the list-offsets request whose response was cut (0: none was).
func (b *TBroker) CutTimestamp() int64 {
	b.mu.Lock()
	defer b.mu.Unlock()
	return b.cutTs
}

func (b *TBroker) LastFrameLen(key int16) int {
	b.mu.Lock()
	defer b.mu.Unlock()
	return b.lastLen[key]
}

func (b *TBroker) Dial(ctx context.Context, network, address string) (net.Conn, error) {
	cli, srv := net.Pipe()
	b.mu.Lock()
	j := &TConn{No: len(b.conns) + 1, CutAt: -1}
	b.conns = append(b.conns, j)
	b.mu.Unlock()
	go b.serve(srv, j)
	return cli, nil
}

// EncodeBatch renders records as one v2 batch whose base offset is the first record's offset.
func EncodeBatch(msgs []Msg) []byte {
	if len(msgs) == 0 {
		return nil
	}
	recs := make([]protocol.Record, len(msgs))
	for i, m := range msgs {
		recs[i] = protocol.Record{Offset: m.Offset, Time: ts(1000 + m.Offset), Value: protocol.NewBytes([]byte(m.Value))}
		if m.Key != "" {
			recs[i].Key = protocol.NewBytes([]byte(m.Key))
		}
	}
	rs := protocol.RecordSet{Version: 2, Records: protocol.NewRecordReader(recs...)}
	var buf bytes.Buffer
	if _, err := rs.WriteTo(&buf); err != nil {
		panic(err)
	}
	bb := buf.Bytes()[4:]
	for i := 0; i < 8; i++ {
		bb[i] = byte(uint64(msgs[0].Offset) >> (8 * (7 - i)))
	}
	return bb
}

func (b *TBroker) response(ver int16, id int32, msg protocol.Message) []byte {
	var res protocol.Message
	switch req := msg.(type) {
	case *apiversions.Request:
		r := &apiversions.Response{}
		for k := int16(0); k < 48; k++ {
			if mv, ok := b.MaxVer[k]; ok {
				r.ApiKeys = append(r.ApiKeys, apiversions.ApiKeyResponse{ApiKey: k, MinVersion: 0, MaxVersion: mv})
			}
		}
		res = r
	case *metadata.Request:
		if b.cluster != nil {
			res = b.cluster.metadata()
			break
		}
		res = &metadata.Response{
			Brokers: []metadata.ResponseBroker{{NodeID: 1, Host: "broker", Port: 9092}}, ClusterID: "fake", ControllerID: 1,
			Topics: []metadata.ResponseTopic{{Name: b.Topic, Partitions: []metadata.ResponsePartition{{
				PartitionIndex: 0, LeaderID: 1, ReplicaNodes: []int32{1}, IsrNodes: []int32{1}, OfflineReplicas: []int32{}}}}},
		}
	case *produce.Request:
		base := int64(-1)
		b.mu.Lock()
		drop := b.dropThis
		b.mu.Unlock()
		nrec := 0
		for _, t := range req.Topics {
			for _, p := range t.Partitions {
				if p.RecordSet.Records == nil {
					continue
				}
				for {
					rec, err := p.RecordSet.Records.ReadRecord()
					if err != nil {
						break
					}
					var k, v []byte
					if rec.Key != nil {
						k, _ = protocol.ReadAll(rec.Key)
					}
					if rec.Value != nil {
						v, _ = protocol.ReadAll(rec.Value)
					}
					nrec++
					if drop {
						continue
					}
					b.mu.Lock()
					off := int64(len(b.log))
					b.log = append(b.log, Msg{off, string(k), string(v)})
					b.mu.Unlock()
					if base < 0 {
						base = off
					}
				}
			}
		}
		b.mu.Lock()
		b.prodRecs = append(b.prodRecs, nrec)
		b.mu.Unlock()
		res = &produce.Response{Topics: []produce.ResponseTopic{{Topic: b.Topic, Partitions: []produce.ResponsePartition{{Partition: 0, BaseOffset: base, LogAppendTime: -1}}}}}
	case *listoffsets.Request:
		b.mu.Lock()
		end := int64(len(b.log))
		b.mu.Unlock()
		off := end
		if len(req.Topics) > 0 && len(req.Topics[0].Partitions) > 0 {
			switch ts := req.Topics[0].Partitions[0].Timestamp; {
			case ts == -2:
				off = 0
			case ts >= 0:
				off = 3 // "first offset at or after that time"
			}
		}
		part := int32(0)
		if len(req.Topics) > 0 && len(req.Topics[0].Partitions) > 0 {
			part = req.Topics[0].Partitions[0].Partition
		}
		if b.cluster != nil && off == end {
			off = 6 + int64(part) // the last offset of partition p of a cluster is 6 + p
		}
		res = &listoffsets.Response{Topics: []listoffsets.ResponseTopic{{Topic: b.Topic, Partitions: []listoffsets.ResponsePartition{{Partition: part, Timestamp: -1, Offset: off}}}}}
	case *findcoordinator.Request:
		if b.cluster != nil {
			id := b.cluster.Coordinator(req.Key)
			res = &findcoordinator.Response{NodeID: id, Host: fmt.Sprintf("b%d", id), Port: 9092}
			break
		}
		res = &findcoordinator.Response{NodeID: 1, Host: "broker", Port: 9092}
	case *listgroups.Request:
		// every broker coordinates its own two groups
		res = &listgroups.Response{Groups: []listgroups.ResponseGroup{
			{GroupID: fmt.Sprintf("grp-%d-a", b.ID), ProtocolType: "consumer"}, {GroupID: fmt.Sprintf("grp-%d-b", b.ID), ProtocolType: "consumer"}}}
	case *describegroups.Request:
		r := &describegroups.Response{}
		for _, g := range req.Groups {
			r.Groups = append(r.Groups, describegroups.ResponseGroup{GroupID: g, GroupState: "Stable", ProtocolType: "consumer",
				ProtocolData: fmt.Sprintf("on-%d", b.ID), Members: []describegroups.ResponseGroupMember{}})
		}
		res = r
	case *describeconfigs.Request:
		r := &describeconfigs.Response{}
		for _, rs := range req.Resources {
			r.Resources = append(r.Resources, describeconfigs.ResponseResource{ResourceType: rs.ResourceType, ResourceName: rs.ResourceName,
				ConfigEntries: []describeconfigs.ResponseConfigEntry{{ConfigName: "answered.by", ConfigValue: fmt.Sprint(b.ID)}}})
		}
		res = r
	case *heartbeat.Request:
		res = &heartbeat.Response{}
	case *fetch.Request:
		off := int64(0)
		if len(req.Topics) > 0 && len(req.Topics[0].Partitions) > 0 {
			off = req.Topics[0].Partitions[0].FetchOffset
		}
		b.mu.Lock()
		end := int64(len(b.log))
		var part []Msg
		if off >= 0 && off < end {
			hi := off + int64(b.FetchMax)
			if hi > end {
				hi = end
			}
			part = append(part, b.log[off:hi]...)
		}
		b.mu.Unlock()
		if len(part) == 0 {
			time.Sleep(5 * time.Millisecond) // nothing to deliver: do not let the client spin
		}
		w := &W{}
		errCode := int16(0)
		if off < 0 || off > end {
			errCode = 1 // OffsetOutOfRange
		}
		w.I32(0)
		if ver >= 7 {
			w.I16(0)
			w.I32(0)
		}
		w.I32(1)
		w.Str(b.Topic)
		w.I32(1)
		w.I32(0)
		w.I16(errCode)
		w.I64(end)
		if ver >= 4 {
			w.I64(end)
			if ver >= 5 {
				w.I64(0)
			}
			w.I32(-1)
		}
		set := EncodeBatch(part)
		w.I32(int32(len(set)))
		w.Raw(set)
		return Frame(id, w.B)
	default:
		return nil
	}
	var buf bytes.Buffer
	if err := protocol.WriteResponse(&buf, ver, id, res); err != nil {
		return nil
	}
	return buf.Bytes()
}

func (b *TBroker) serve(c net.Conn, j *TConn) {
	defer c.Close()
	for {
		ver, id, _, msg, err := protocol.ReadRequest(c)
		if err != nil {
			return
		}
		key := int16(msg.ApiKey())
		b.mu.Lock()
		j.Keys = append(j.Keys, key)
		b.seq++
		j.Seqs = append(j.Seqs, b.seq)
		b.seen[key]++
		cut := b.cutNth > 0 && key == b.cutKey && b.seen[key] == b.cutNth
		k := b.cutAt
		b.mu.Unlock()
		if b.cluster != nil {
			cut, k = b.cluster.arrived(key, b.ID)
		}
		b.mu.Lock()
		b.dropThis = cut && b.unapplied
		b.mu.Unlock()
		f := b.response(ver, id, msg)
		if f == nil {
			return
		}
		b.mu.Lock()
		j.FrameLens = append(j.FrameLens, len(f))
		b.lens[key] = append(b.lens[key], len(f))
		if !cut || k >= len(f) {
			b.lastLen[key] = len(f)
		}
		b.mu.Unlock()
		c.SetWriteDeadline(time.Now().Add(10 * time.Second))
		if cut && k < len(f) {
			if lo, ok := msg.(*listoffsets.Request); ok && len(lo.Topics) > 0 && len(lo.Topics[0].Partitions) > 0 {
				b.mu.Lock()
				b.cutTs = lo.Topics[0].Partitions[0].Timestamp
				b.mu.Unlock()
			}
			c.Write(f[:k])
			b.mu.Lock()
			j.CutAt = k
			stall := b.stall
			b.mu.Unlock()
			if stall {
				// silent from here on (no FIN): only the client's deadline ends the exchange
				c.SetReadDeadline(time.Now().Add(20 * time.Second))
				io.Copy(io.Discard, c)
			}
			return // deferred Close: the connection is lost
		}
		if _, err := c.Write(f); err != nil {
			return
		}
	}
}

// TCluster: n TBrokers ("b1:9092" … "bn:9092") behind one Dial; one topic with `parts` partitions, partition p led by
// broker p%n+1; every broker coordinates the groups whose name hashes onto it.  The cut is cluster-wide: the response
// to the nth request (in arrival order, over all brokers) with an api key.
type TCluster struct {
	Brokers []*TBroker
	Parts   int
	Topic   string

	mu     sync.Mutex
	cutKey int16
	cutNth int
	cutAt  int
	seen   map[int16]int
	CutOn  int32 // id of the broker whose response was cut (0: none)
}

func NewTCluster(topic string, n, parts int) *TCluster {
	c := &TCluster{Parts: parts, Topic: topic, seen: map[int16]int{}}
	for i := 1; i <= n; i++ {
		b := NewTBroker(topic)
		b.ID, b.cluster = int32(i), c
		c.Brokers = append(c.Brokers, b)
	}
	return c
}

func (c *TCluster) Cut(key int16, nth, k int) {
	c.mu.Lock()
	c.cutKey, c.cutNth, c.cutAt, c.seen, c.CutOn = key, nth, k, map[int16]int{}, 0
	c.mu.Unlock()
}

func (c *TCluster) arrived(key int16, broker int32) (bool, int) {
	c.mu.Lock()
	defer c.mu.Unlock()
	c.seen[key]++
	if c.cutNth > 0 && key == c.cutKey && c.seen[key] == c.cutNth {
		c.CutOn = broker
		return true, c.cutAt
	}
	return false, 0
}

func (c *TCluster) CutBroker() int32 {
	c.mu.Lock()
	defer c.mu.Unlock()
	return c.CutOn
}

func (c *TCluster) Coordinator(key string) int32 {
	h := 0
	for _, ch := range []byte(key) {
		h += int(ch)
	}
	return int32(h%len(c.Brokers)) + 1
}

func (c *TCluster) metadata() *metadata.Response {
	r := &metadata.Response{ClusterID: "fake", ControllerID: 1}
	for _, b := range c.Brokers {
		r.Brokers = append(r.Brokers, metadata.ResponseBroker{NodeID: b.ID, Host: fmt.Sprintf("b%d", b.ID), Port: 9092})
	}
	t := metadata.ResponseTopic{Name: c.Topic}
	for p := 0; p < c.Parts; p++ {
		l := int32(p%len(c.Brokers)) + 1
		t.Partitions = append(t.Partitions, metadata.ResponsePartition{PartitionIndex: int32(p), LeaderID: l,
			ReplicaNodes: []int32{l}, IsrNodes: []int32{l}, OfflineReplicas: []int32{}})
	}
	r.Topics = []metadata.ResponseTopic{t}
	return r
}

// Dial routes "b<i>:9092" to broker i; any other address (the bootstrap address) to broker 1.
func (c *TCluster) Dial(ctx context.Context, network, address string) (net.Conn, error) {
	i := 1
	if strings.HasPrefix(address, "b") {
		fmt.Sscanf(address, "b%d:", &i)
	}
	if i < 1 || i > len(c.Brokers) {
		i = 1
	}
	return c.Brokers[i-1].Dial(ctx, network, address)
}

// FrameLenNth over all brokers is not defined (requests interleave); the drivers use the length observed in a dry run.
func (c *TCluster) LastFrameLen(key int16) int {
	for _, b := range c.Brokers {
		if n := b.LastFrameLen(key); n > 0 {
			return n
		}
	}
	return 0
}
