// Package connfake: an in-process scripted Kafka broker over net.Pipe for driving a real kafka.Conn
// (properties C11, C17).  The broker reads request frames, answers ApiVersions from a version table and every
// other request from a per-API queue of scripted response bodies; a response may be cut after k bytes of the
// frame (size prefix + correlation id + body), after which the broker closes the connection.
package connfake

import (
	"encoding/binary"
	"io"
	"net"
	"sync"
	"time"

	kafka "github.com/segmentio/kafka-go"
)

// Resp is one scripted response: Body is everything after the correlation id.  Cut < 0 delivers the whole frame;
// Cut = k delivers exactly the first k bytes of the frame and then closes the connection.
type Resp struct {
	Body []byte
	Cut  int
	// IDDelta is added to the correlation id echoed in the response (0 = the request's id; anything else is a framing
	// error of the broker: a response nobody asked for).
	IDDelta int32
	// Stall (with Cut >= 0): after the prefix the broker goes silent instead of dropping the connection
	Stall bool
	// Pause (with Cut >= 0): the broker writes Cut bytes, waits Pause, then writes the
	// rest of the frame and carries on — a slow link, nothing is lost
	Pause time.Duration
	// SizeSet: the size prefix of the frame is Size instead of len(Body)+4 (a lying size prefix)
	SizeSet bool
	Size    int32
}

// Req is one request seen by the broker.
type Req struct {
	Key, Version int16
	ID           int32
	Size         int
}

type Broker struct {
	mu       sync.Mutex
	versions map[int16]int16 // api key -> max version announced (min is 0)
	script   map[int16][]Resp
	log      []Req
	written  int // bytes of responses written so far
	srv      net.Conn
	hold     int // >0: collect this many responses before writing any (several requests in flight)
	holdCut  int // cut position over the concatenation of the held frames (<0: none)
	pending  [][]byte
	rawResp  []byte // != nil: the next exchange is un-framed (sasl v0 token): [int32 len][bytes] both ways
	rawCut   int
	done     chan struct{}
}

// Start creates a pipe, a broker goroutine on one end and a kafka.Conn (topic, partition 0) on the other.
func Start(topic string, versions map[int16]int16) (*kafka.Conn, *Broker) {
	cli, srv := net.Pipe()
	b := &Broker{versions: versions, script: map[int16][]Resp{}, srv: srv, done: make(chan struct{})}
	go b.serve()
	c := kafka.NewConn(cli, topic, 0)
	return c, b
}

// Push appends a scripted response for an api key.
func (b *Broker) Push(key int16, r Resp) {
	b.mu.Lock()
	b.script[key] = append(b.script[key], r)
	b.mu.Unlock()
}

// RawNext makes the next exchange (after the framed ones already scripted) an un-framed one: the broker reads
// [int32 n][n bytes] and answers with `resp` as is, cut after `cut` bytes (cut < 0: whole), closing after a cut.
func (b *Broker) RawNext(resp []byte, cut int) {
	b.mu.Lock()
	b.rawResp, b.rawCut = append([]byte{}, resp...), cut
	b.mu.Unlock()
}

// Hold makes the broker read n requests before it writes any response; the n response frames are then written back to
// back, cut after `cut` bytes of their concatenation (cut < 0 or beyond the end: not at all).
func (b *Broker) Hold(n, cut int) {
	b.mu.Lock()
	b.hold, b.holdCut, b.pending = n, cut, nil
	b.mu.Unlock()
}

func (b *Broker) Log() []Req {
	b.mu.Lock()
	defer b.mu.Unlock()
	return append([]Req(nil), b.log...)
}

func (b *Broker) Written() int {
	b.mu.Lock()
	defer b.mu.Unlock()
	return b.written
}

// Stop closes the broker side and waits for the goroutine.
func (b *Broker) Stop() {
	b.srv.Close()
	select {
	case <-b.done:
	case <-time.After(5 * time.Second):
	}
}

// ApiVersionsBody renders an ApiVersions v0 response body for the version table (sorted by key).
func ApiVersionsBody(errCode int16, versions map[int16]int16) []byte {
	var w W
	w.I16(errCode)
	keys := make([]int, 0, len(versions))
	for k := range versions {
		keys = append(keys, int(k))
	}
	for i := range keys { // insertion sort, tiny
		for j := i; j > 0 && keys[j] < keys[j-1]; j-- {
			keys[j], keys[j-1] = keys[j-1], keys[j]
		}
	}
	w.I32(int32(len(keys)))
	for _, k := range keys {
		w.I16(int16(k))
		w.I16(0)
		w.I16(versions[int16(k)])
	}
	return w.B
}

// Frame renders size prefix + correlation id + body.
func Frame(id int32, body []byte) []byte {
	f := make([]byte, 8+len(body))
	binary.BigEndian.PutUint32(f[0:], uint32(len(body)+4))
	binary.BigEndian.PutUint32(f[4:], uint32(id))
	copy(f[8:], body)
	return f
}

func (b *Broker) serve() {
	defer close(b.done)
	defer b.srv.Close()
	// responses are written by a second goroutine so that the broker keeps reading requests while a response waits
	// for the client to read it (net.Pipe has no buffer; a real socket has one)
	type outFrame struct {
		f       []byte
		cut     bool
		stall   bool
		pauseAt int
		pause   time.Duration
	}
	wq := make(chan outFrame, 256)
	defer close(wq)
	go func() {
		for o := range wq {
			b.srv.SetWriteDeadline(time.Now().Add(10 * time.Second))
			if o.pause > 0 {
				n, err := b.srv.Write(o.f[:o.pauseAt])
				b.mu.Lock()
				b.written += n
				b.mu.Unlock()
				if err != nil {
					b.srv.Close()
					for range wq {
					}
					return
				}
				time.Sleep(o.pause)
				o.f = o.f[o.pauseAt:]
				b.srv.SetWriteDeadline(time.Now().Add(10 * time.Second))
			}
			n, err := b.srv.Write(o.f)
			b.mu.Lock()
			b.written += n
			b.mu.Unlock()
			if err != nil || o.cut {
				if err != nil || !o.stall {
					b.srv.Close()
				}
				for range wq {
				}
				return
			}
		}
	}()
	var hdr [4]byte
	for {
		if _, err := io.ReadFull(b.srv, hdr[:]); err != nil {
			return
		}
		n := int(binary.BigEndian.Uint32(hdr[:]))
		b.mu.Lock()
		raw, rawCut := b.rawResp, b.rawCut
		b.mu.Unlock()
		if raw != nil && n < 8 {
			tok := make([]byte, n)
			if _, err := io.ReadFull(b.srv, tok); err != nil {
				return
			}
			b.mu.Lock()
			b.rawResp = nil
			b.mu.Unlock()
			cut := rawCut >= 0 && rawCut < len(raw)
			if cut {
				raw = raw[:rawCut]
			}
			wq <- outFrame{f: raw, cut: cut}
			if cut {
				for i := 0; i < 2000; i++ {
					if _, err := b.srv.Read(hdr[:1]); err != nil {
						break
					}
				}
				return
			}
			continue
		}
		if n < 8 || n > 64<<20 {
			return
		}
		req := make([]byte, n)
		if _, err := io.ReadFull(b.srv, req); err != nil {
			return
		}
		r := Req{Key: int16(binary.BigEndian.Uint16(req[0:])), Version: int16(binary.BigEndian.Uint16(req[2:])),
			ID: int32(binary.BigEndian.Uint32(req[4:])), Size: n}
		b.mu.Lock()
		b.log = append(b.log, r)
		var resp Resp
		have := false
		if q := b.script[r.Key]; len(q) > 0 {
			resp, have = q[0], true
			b.script[r.Key] = q[1:]
		}
		b.mu.Unlock()
		if !have {
			if r.Key != 18 {
				return // unscripted request: drop the connection
			}
			resp = Resp{Body: ApiVersionsBody(0, b.versions), Cut: -1}
		}
		f := Frame(r.ID+resp.IDDelta, resp.Body)
		if resp.SizeSet {
			binary.BigEndian.PutUint32(f[0:], uint32(resp.Size))
		}
		b.mu.Lock()
		if b.hold > 0 {
			b.pending = append(b.pending, f)
			if len(b.pending) < b.hold {
				b.mu.Unlock()
				continue
			}
			f = nil
			for _, p := range b.pending {
				f = append(f, p...)
			}
			resp.Cut = b.holdCut
			b.hold, b.pending = 0, nil
		}
		b.mu.Unlock()
		cut := resp.Cut >= 0 && resp.Cut < len(f)
		if cut && resp.Pause > 0 {
			// the writer goroutine writes the prefix, sleeps, writes the rest: later responses stay behind it
			wq <- outFrame{f: f, pauseAt: resp.Cut, pause: resp.Pause}
			continue
		}
		if cut {
			f = f[:resp.Cut]
		}
		wq <- outFrame{f: f, cut: cut, stall: resp.Stall}
		if cut && resp.Stall {
			// silent from here on: requests are read and ignored until the client gives up / Stop
			buf := make([]byte, 4096)
			for {
				if _, err := b.srv.Read(buf); err != nil {
					return
				}
			}
		}
		if cut {
			// the connection is dropped by the writer once the prefix is out; nothing more is read
			for i := 0; i < 2000; i++ {
				if _, err := b.srv.Read(hdr[:1]); err != nil {
					break
				}
			}
			return
		}
	}
}

// W is a tiny big-endian writer for building response bodies.
type W struct {
	B      []byte
	Errs   []int16 // error codes to place, consumed in order by Err(); 0 when exhausted
	ErrPos []int   // byte offsets (within B) of the error-code fields written so far
	CntPos []int   // byte offsets of the int32 array-count fields written so far
}

func (w *W) I8(v int8)   { w.B = append(w.B, byte(v)) }
func (w *W) I16(v int16) { w.B = append(w.B, byte(v>>8), byte(v)) }
func (w *W) I32(v int32) { w.B = append(w.B, byte(v>>24), byte(v>>16), byte(v>>8), byte(v)) }

// Cnt writes an int32 array count and records where.
func (w *W) Cnt(v int32) {
	w.CntPos = append(w.CntPos, len(w.B))
	w.I32(v)
}
func (w *W) I64(v int64) {
	w.I32(int32(v >> 32))
	w.I32(int32(v))
}
func (w *W) Str(s string) {
	w.I16(int16(len(s)))
	w.B = append(w.B, s...)
}
func (w *W) NullStr() { w.I16(-1) }
func (w *W) Bytes(b []byte) {
	if b == nil {
		w.I32(-1)
		return
	}
	w.I32(int32(len(b)))
	w.B = append(w.B, b...)
}
func (w *W) Raw(b []byte) { w.B = append(w.B, b...) }

// Err writes the next error code to place (0 when none is left) and records the field position.
func (w *W) Err() int16 {
	var c int16
	if len(w.Errs) > 0 {
		c, w.Errs = w.Errs[0], w.Errs[1:]
	}
	w.ErrPos = append(w.ErrPos, len(w.B))
	w.I16(c)
	return c
}
