package connfake

import (
	"bytes"
	"errors"
	"fmt"
	"io"
	"math/rand"
	"time"

	kafka "github.com/segmentio/kafka-go"
	"github.com/segmentio/kafka-go/protocol"
)

// Op describes one Conn operation: which API it speaks, the versions Conn negotiates, how a well-formed
// response body is laid out (Kafka's published layouts, transcribed here; the Lean side re-validates every body
// against Spec/ConnFrames.lean), and how to call it.
type Op struct {
	Name     string
	Key      int16
	Versions []int16 // values announced as MaxVersion so that Conn negotiates exactly this version
	Build    func(v int16, w *W, r *rand.Rand, sh *Shape)
	Call     func(c *kafka.Conn, sh *Shape) (string, error)
}

// Shape carries the per-case parameters shared by Build and Call.
type Shape struct {
	Topic   string
	Offset  int64  // fetch: the offset the conn is positioned at
	HWM     int64  // fetch: high watermark in the response
	Set     []byte // fetch: encoded message set
	Want    []Msg  // fetch: the records encoded in Set
	Got     []Msg  // fetch: records delivered by the batch
	Deliver string // fetch: "-" | "prefix" | "notprefix"
	Via     string // fetch: "" = ReadBatchWith + Batch.ReadMessage; "ReadMessage" = Conn.ReadMessage; "Read" = Conn.Read (one record each); "ReadSmall" = Conn.Read into a 1-byte buffer
	ReadN   int    // fetch: 0 = read the batch to its end; n > 0 = read at most n records, then Close; -1 = Close at once
}

type Msg struct {
	Offset     int64
	Key, Value string
}

func str(r *rand.Rand, max int) string {
	n := r.Intn(max + 1)
	b := make([]byte, n)
	for i := range b {
		b[i] = byte('a' + r.Intn(26))
	}
	return string(b)
}

func optStr(w *W, r *rand.Rand, max int) {
	if r.Intn(3) == 0 {
		w.NullStr()
	} else {
		w.Str(str(r, max))
	}
}

func int32s(w *W, r *rand.Rand, max int) {
	n := r.Intn(max + 1)
	w.Cnt(int32(n))
	for i := 0; i < n; i++ {
		w.I32(int32(r.Intn(5)))
	}
}

func brokers(w *W, r *rand.Rand) {
	n := r.Intn(4)
	w.Cnt(int32(n))
	for i := 0; i < n; i++ {
		w.I32(int32(i + 1))
		w.Str("h" + str(r, 6))
		w.I32(9092)
		optStr(w, r, 4)
	}
}

func metaTopics(v int16, w *W, r *rand.Rand, sh *Shape) {
	n := 1 + r.Intn(3)
	own := r.Intn(n)
	w.Cnt(int32(n))
	for i := 0; i < n; i++ {
		w.Err()
		if i == own {
			w.Str(sh.Topic)
		} else {
			w.Str("o" + str(r, 5))
		}
		w.I8(int8(r.Intn(2)))
		np := r.Intn(3)
		w.Cnt(int32(np))
		for p := 0; p < np; p++ {
			w.Err()
			w.I32(int32(p))
			w.I32(int32(1 + r.Intn(3)))
			int32s(w, r, 3)
			int32s(w, r, 3)
			if v >= 6 {
				int32s(w, r, 2)
			}
		}
	}
}

func topicPartArr(w *W, r *rand.Rand, sh *Shape, part func()) {
	nt := 1 + r.Intn(2)
	w.Cnt(int32(nt))
	for t := 0; t < nt; t++ {
		if t == 0 {
			w.Str(sh.Topic)
		} else {
			w.Str("o" + str(r, 4))
		}
		np := 1 + r.Intn(2)
		w.Cnt(int32(np))
		for p := 0; p < np; p++ {
			part()
		}
	}
}

func ts(i int64) time.Time { return time.Unix(0, i*int64(time.Millisecond)) }

// Ops is the table of every Conn operation that reads a response frame.
var Ops = []*Op{
	{Name: "apiVersions", Key: 18, Versions: []int16{0},
		Build: func(v int16, w *W, r *rand.Rand, sh *Shape) {
			w.Err()
			n := r.Intn(5)
			w.Cnt(int32(n))
			for i := 0; i < n; i++ {
				w.I16(int16(i))
				w.I16(0)
				w.I16(int16(r.Intn(12)))
			}
		},
		Call: func(c *kafka.Conn, sh *Shape) (string, error) { _, err := c.ApiVersions(); return "", err }},
	{Name: "listOffsets", Key: 2, Versions: []int16{1},
		Build: func(v int16, w *W, r *rand.Rand, sh *Shape) {
			w.Cnt(1)
			w.Str(sh.Topic)
			w.Cnt(1)
			w.I32(0)
			w.Err()
			w.I64(r.Int63n(1 << 40))
			w.I64(r.Int63n(1 << 40))
		},
		Call: func(c *kafka.Conn, sh *Shape) (string, error) {
			o, err := c.ReadLastOffset()
			return fmt.Sprint(o), err
		}},
	{Name: "metadata", Key: 3, Versions: []int16{1, 6},
		Build: func(v int16, w *W, r *rand.Rand, sh *Shape) {
			if v >= 6 {
				w.I32(int32(r.Intn(100)))
			}
			brokers(w, r)
			if v >= 6 {
				optStr(w, r, 6)
			}
			w.I32(1)
			metaTopics(v, w, r, sh)
		},
		Call: func(c *kafka.Conn, sh *Shape) (string, error) { _, err := c.ReadPartitions(); return "", err }},
	{Name: "brokers", Key: 3, Versions: []int16{1},
		Build: func(v int16, w *W, r *rand.Rand, sh *Shape) {
			brokers(w, r)
			w.I32(1)
			metaTopics(1, w, r, sh)
		},
		Call: func(c *kafka.Conn, sh *Shape) (string, error) { _, err := c.Brokers(); return "", err }},
	{Name: "controller", Key: 3, Versions: []int16{1},
		Build: func(v int16, w *W, r *rand.Rand, sh *Shape) {
			brokers(w, r)
			w.I32(1)
			metaTopics(1, w, r, sh)
		},
		Call: func(c *kafka.Conn, sh *Shape) (string, error) { _, err := c.Controller(); return "", err }},
	{Name: "produce", Key: 0, Versions: []int16{2, 3, 7},
		Build: func(v int16, w *W, r *rand.Rand, sh *Shape) {
			w.Cnt(1)
			w.Str(sh.Topic)
			w.Cnt(1)
			w.I32(0)
			w.Err()
			w.I64(r.Int63n(1 << 40))
			w.I64(r.Int63n(1 << 40))
			if v >= 5 {
				w.I64(r.Int63n(1 << 40))
			}
			w.I32(int32(r.Intn(1000)))
		},
		Call: func(c *kafka.Conn, sh *Shape) (string, error) {
			_, p, o, _, err := c.WriteCompressedMessagesAt(nil, kafka.Message{Key: []byte("k"), Value: []byte("v")})
			return fmt.Sprintf("%d/%d", p, o), err
		}},
	{Name: "fetch", Key: 1, Versions: []int16{2, 5, 10},
		Build: func(v int16, w *W, r *rand.Rand, sh *Shape) {
			w.I32(int32(r.Intn(1000))) // throttle
			if v >= 7 {
				w.Err()
				w.I32(int32(r.Intn(100))) // session id
			}
			w.Cnt(1)
			w.Str(sh.Topic)
			w.Cnt(1)
			w.I32(0)
			w.Err()
			w.I64(sh.HWM)
			if v >= 4 {
				w.I64(sh.HWM) // last stable offset
				if v >= 5 {
					w.I64(0) // log start offset
				}
				switch n := r.Intn(3); n {
				case 0:
					w.I32(-1)
				default:
					w.I32(int32(n - 1))
					for i := 0; i < n-1; i++ {
						w.I64(r.Int63n(100))
						w.I64(r.Int63n(100))
					}
				}
			}
			w.I32(int32(len(sh.Set)))
			w.Raw(sh.Set)
		},
		Call: func(c *kafka.Conn, sh *Shape) (string, error) {
			sh.Got, sh.Deliver = nil, "-"
			if _, err := c.Seek(sh.Offset, kafka.SeekAbsolute|kafka.SeekDontCheck); err != nil {
				return "", err
			}
			if sh.Via != "" {
				// the single-record convenience calls of Conn: ReadBatch(1, max) + one record + Batch.Close
				var m kafka.Message
				var err error
				if sh.Via == "Read" {
					buf := make([]byte, 1<<16)
					var n int
					n, err = c.Read(buf)
					if err == nil && len(sh.Want) > 0 {
						m = kafka.Message{Offset: sh.Want[0].Offset, Key: []byte(sh.Want[0].Key), Value: buf[:n]}
					}
				} else if sh.Via == "ReadSmall" {
					// a buffer shorter than the value: io.ErrShortBuffer, the Conn stays usable (and aligned)
					buf := make([]byte, 1)
					_, err = c.Read(buf)
					sh.Deliver = "prefix"
					switch {
					case len(sh.Want) > 0 && len(sh.Want[0].Value) > 1 && errors.Is(err, io.ErrShortBuffer):
						return "", io.ErrShortBuffer // Outcome: "shortbuf"
					case len(sh.Want) > 0 && len(sh.Want[0].Value) > 1 && err == nil:
						return "", errors.New("verif: a value longer than the buffer was read without io.ErrShortBuffer")
					}
					return "", err
				} else {
					m, err = c.ReadMessage(1 << 20)
				}
				sh.Deliver = "prefix"
				if err == nil {
					sh.Got = append(sh.Got, Msg{m.Offset, string(m.Key), string(m.Value)})
					if len(sh.Want) == 0 || sh.Got[0] != sh.Want[0] {
						sh.Deliver = "notprefix"
					}
				}
				return "", err
			}
			b := c.ReadBatchWith(kafka.ReadBatchConfig{MinBytes: 1, MaxBytes: 1 << 20})
			var rerr error
			early := false
			for {
				if sh.ReadN < 0 || (sh.ReadN > 0 && len(sh.Got) >= sh.ReadN) {
					early = true // the caller stops here (Conn.ReadMessage / Conn.Read do exactly this after one record)
					break
				}
				m, err := b.ReadMessage()
				if err != nil {
					rerr = err
					break
				}
				sh.Got = append(sh.Got, Msg{m.Offset, string(m.Key), string(m.Value)})
				if len(sh.Got) > 10000 {
					rerr = errors.New("verif: runaway batch")
					break
				}
			}
			cerr := b.Close()
			sh.Deliver = "prefix"
			if len(sh.Got) > len(sh.Want) {
				sh.Deliver = "notprefix"
			} else {
				for i := range sh.Got {
					if sh.Got[i] != sh.Want[i] {
						sh.Deliver = "notprefix"
					}
				}
			}
			if early {
				return "", cerr
			}
			if errors.Is(rerr, io.EOF) && cerr == nil {
				if len(sh.Got) != len(sh.Want) {
					sh.Deliver = "incomplete-as-complete"
				}
				return "", nil
			}
			if cerr != nil {
				return "", cerr
			}
			return "", rerr
		}},
	{Name: "createTopics", Key: 19, Versions: []int16{0, 1, 2},
		Build: func(v int16, w *W, r *rand.Rand, sh *Shape) {
			if v >= 2 {
				w.I32(int32(r.Intn(100)))
			}
			n := 1 + r.Intn(3)
			w.Cnt(int32(n))
			for i := 0; i < n; i++ {
				w.Str("t" + str(r, 4))
				w.Err()
				if v >= 1 {
					optStr(w, r, 8)
				}
			}
		},
		Call: func(c *kafka.Conn, sh *Shape) (string, error) {
			return "", c.CreateTopics(kafka.TopicConfig{Topic: "tx", NumPartitions: 1, ReplicationFactor: 1})
		}},
	{Name: "deleteTopics", Key: 20, Versions: []int16{0, 1},
		Build: func(v int16, w *W, r *rand.Rand, sh *Shape) {
			if v >= 1 {
				w.I32(int32(r.Intn(100)))
			}
			n := 1 + r.Intn(3)
			w.Cnt(int32(n))
			for i := 0; i < n; i++ {
				w.Str("t" + str(r, 4))
				w.Err()
			}
		},
		Call: func(c *kafka.Conn, sh *Shape) (string, error) { return "", c.DeleteTopics("tx") }},
	{Name: "findCoordinator", Key: 10, Versions: []int16{0},
		Build: func(v int16, w *W, r *rand.Rand, sh *Shape) {
			w.Err()
			w.I32(int32(r.Intn(5)))
			w.Str("h" + str(r, 5))
			w.I32(9092)
		}},
	{Name: "joinGroup", Key: 11, Versions: []int16{1, 2},
		Build: func(v int16, w *W, r *rand.Rand, sh *Shape) {
			if v >= 2 {
				w.I32(int32(r.Intn(100)))
			}
			w.Err()
			w.I32(int32(r.Intn(50)))
			w.Str("range")
			w.Str("m" + str(r, 4))
			w.Str("m" + str(r, 4))
			n := r.Intn(3)
			w.Cnt(int32(n))
			for i := 0; i < n; i++ {
				w.Str("m" + str(r, 4))
				w.Bytes([]byte(str(r, 6)))
			}
		}},
	{Name: "heartbeat", Key: 12, Versions: []int16{0}, Build: func(v int16, w *W, r *rand.Rand, sh *Shape) { w.Err() }},
	{Name: "leaveGroup", Key: 13, Versions: []int16{0}, Build: func(v int16, w *W, r *rand.Rand, sh *Shape) { w.Err() }},
	{Name: "syncGroup", Key: 14, Versions: []int16{0},
		Build: func(v int16, w *W, r *rand.Rand, sh *Shape) {
			w.Err()
			if r.Intn(4) == 0 {
				w.Bytes(nil)
			} else {
				w.Bytes([]byte(str(r, 10)))
			}
		}},
	{Name: "listGroups", Key: 16, Versions: []int16{1},
		Build: func(v int16, w *W, r *rand.Rand, sh *Shape) {
			w.I32(int32(r.Intn(100)))
			w.Err()
			n := r.Intn(3)
			w.Cnt(int32(n))
			for i := 0; i < n; i++ {
				w.Str("g" + str(r, 4))
				w.Str("consumer")
			}
		}},
	{Name: "offsetCommit", Key: 8, Versions: []int16{2},
		Build: func(v int16, w *W, r *rand.Rand, sh *Shape) {
			topicPartArr(w, r, sh, func() { w.I32(int32(r.Intn(4))); w.Err() })
		}},
	{Name: "offsetFetch", Key: 9, Versions: []int16{1},
		Build: func(v int16, w *W, r *rand.Rand, sh *Shape) {
			topicPartArr(w, r, sh, func() { w.I32(int32(r.Intn(4))); w.I64(r.Int63n(1000)); optStr(w, r, 4); w.Err() })
		}},
	{Name: "saslHandshake", Key: 17, Versions: []int16{0, 1},
		Build: func(v int16, w *W, r *rand.Rand, sh *Shape) {
			w.Err()
			n := r.Intn(3)
			w.Cnt(int32(n))
			for i := 0; i < n; i++ {
				w.Str("M" + str(r, 5))
			}
		}},
	{Name: "saslAuthenticate", Key: 36, Versions: []int16{0},
		Build: func(v int16, w *W, r *rand.Rand, sh *Shape) {
			w.Err()
			optStr(w, r, 6)
			w.Bytes([]byte(str(r, 6)))
		}},
}

func init() {
	for _, o := range Ops {
		if o.Call == nil {
			name := o.Name
			o.Call = func(c *kafka.Conn, sh *Shape) (string, error) { _, err := kafka.VerifConnOp(c, name); return "", err }
		}
	}
}

func OpByName(n string) *Op {
	for _, o := range Ops {
		if o.Name == n {
			return o
		}
	}
	return nil
}

// VersionTable announces, for the op under test at version v, exactly the MaxVersion that makes Conn pick v;
// every other API gets a version that selects the lowest variant (so the following op's layout is fixed).
func VersionTable(sel map[int16]int16) map[int16]int16 {
	t := map[int16]int16{0: 2, 1: 2, 2: 1, 3: 1, 8: 2, 9: 1, 10: 0, 11: 1, 12: 0, 13: 0, 14: 0, 16: 1, 17: 0, 18: 0, 19: 0, 20: 0, 36: 0}
	for k, v := range sel {
		t[k] = v
	}
	// saslAuthenticate (36) is framed only after a v1 handshake (17)
	if _, ok := sel[36]; ok {
		t[17] = 1
	}
	return t
}

// Outcome canonicalises an error: "ok", "kafka:<code>", "fail:noprogress" or "fail".
func Outcome(err error) string {
	if err == nil {
		return "ok"
	}
	var ke kafka.Error
	if errors.As(err, &ke) {
		return fmt.Sprintf("kafka:%d", int(ke))
	}
	if errors.Is(err, io.ErrNoProgress) {
		return "fail:noprogress"
	}
	if err == io.ErrShortBuffer {
		return "shortbuf" // only from the "ReadSmall" fetch variant, where it is the expected answer
	}
	return "fail"
}

// RecordSet renders n records in message format `magic` (1 or 2), optionally as several batches, using the
// protocol package's encoder (the encoders themselves are the subject of C04/C05).  The encoder always numbers the
// records of a set from 0; for format 2 the base offset of each batch (outside the CRC) is patched so that the set
// starts at `base`; a format 1 set is a single batch starting at 0.  The base actually used is returned.
func RecordSet(r *rand.Rand, magic int8, base int64, n int, batches int, attrs protocol.Attributes) ([]byte, []Msg, int64, error) {
	return RecordSetSized(r, magic, base, n, batches, attrs, 0)
}

// RecordSetSized is RecordSet with values of valLen random (incompressible) bytes when valLen > 0.
func RecordSetSized(r *rand.Rand, magic int8, base int64, n int, batches int, attrs protocol.Attributes, valLen int) ([]byte, []Msg, int64, error) {
	var out bytes.Buffer
	var msgs []Msg
	if batches < 1 || magic < 2 {
		batches = 1
	}
	if magic < 2 {
		base = 0
	}
	off := base
	for b := 0; b < batches; b++ {
		k := n / batches
		if b == batches-1 {
			k = n - (n/batches)*(batches-1)
		}
		if k == 0 {
			continue
		}
		start := off
		recs := make([]protocol.Record, k)
		for i := range recs {
			key, val := str(r, 3), "v"+str(r, 8)
			if valLen > 0 {
				bv := make([]byte, valLen)
				r.Read(bv)
				val = string(bv)
			}
			recs[i] = protocol.Record{Offset: off, Time: ts(1000 + off), Key: protocol.NewBytes([]byte(key)), Value: protocol.NewBytes([]byte(val))}
			if key == "" {
				recs[i].Key = nil
			}
			msgs = append(msgs, Msg{off, key, val})
			off++
		}
		rs := protocol.RecordSet{Version: magic, Attributes: attrs, Records: protocol.NewRecordReader(recs...)}
		var buf bytes.Buffer
		if _, err := rs.WriteTo(&buf); err != nil {
			return nil, nil, 0, err
		}
		bb := buf.Bytes()
		if len(bb) < 12 {
			return nil, nil, 0, fmt.Errorf("short record set")
		}
		bb = bb[4:] // WriteTo prefixes the set with its int32 size
		if magic >= 2 {
			for i := 0; i < 8; i++ {
				bb[i] = byte(uint64(start) >> (8 * (7 - i)))
			}
		} else if attrs&7 != 0 {
			// format 1, compressed: Kafka gives the wrapper message the offset of its last inner message
			for i := 0; i < 8; i++ {
				bb[i] = byte(uint64(off-1) >> (8 * (7 - i)))
			}
		}
		out.Write(bb)
	}
	return out.Bytes(), msgs, base, nil
}
