// Package gen: deterministic PRNG helpers shared by the drivers (every random choice derives from VERIF_SEED).
package gen

import (
	"encoding/hex"
	"math/rand"
	"os"
	"strconv"
)

func Seed() int64 {
	s, err := strconv.ParseInt(os.Getenv("VERIF_SEED"), 10, 64)
	if err != nil {
		return 1
	}
	return s
}

func Thorough() bool { return os.Getenv("VERIF_TIER") == "thorough" }

func New() *rand.Rand { return rand.New(rand.NewSource(Seed())) }

// Hex encodes bytes for the line protocol; the empty string is "-".
func Hex(b []byte) string {
	if len(b) == 0 {
		return "-"
	}
	return hex.EncodeToString(b)
}

// Key renders a possibly-nil key: nil → "nil", empty → "-".
func Key(b []byte) string {
	if b == nil {
		return "nil"
	}
	return Hex(b)
}

// Bytes returns n random bytes with a bias towards high-bit and boundary values.
func Bytes(r *rand.Rand, n int) []byte {
	b := make([]byte, n)
	for i := range b {
		switch r.Intn(6) {
		case 0:
			b[i] = 0xff
		case 1:
			b[i] = 0x80 | byte(r.Intn(128))
		case 2:
			b[i] = 0
		default:
			b[i] = byte(r.Intn(256))
		}
	}
	return b
}
