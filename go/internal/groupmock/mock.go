// Package groupmock: harness side of the mock group coordinator (properties C15, C03).
//
// The library (built with -tags verif) hands every coordinator call to Mock.Handle, which journals it into the
// same totally ordered log as the library's hook events ("M.Call"/"M.Ret"), parks it until the scenario script
// answers it, and returns the scripted reply.  Holding calls is the schedule control.
package groupmock

import (
	"errors"
	"fmt"
	"sort"
	"strings"
	"sync"
	"time"

	kafka "github.com/segmentio/kafka-go"
)

// Pending is one parked coordinator call.
type Pending struct {
	Call  kafka.VerifCoordCall
	Seq   int
	reply chan kafka.VerifCoordReply
}

type Mock struct {
	mu      sync.Mutex
	cond    *sync.Cond
	pending []*Pending
	seq     int
	Bodies  []string // byte-level path: "wirebody <method> <what was encoded>\t<hex>" lines
	// Auto answers a call without parking it when it returns true (used for close and for free-running phases).
	Auto func(c kafka.VerifCoordCall) (kafka.VerifCoordReply, bool)
}

func New() *Mock {
	m := &Mock{}
	m.cond = sync.NewCond(&m.mu)
	return m
}

// ErrClass renders a reply's outcome as the oracle's error token.
func ErrClass(err error, code int16) string {
	if err == nil && code == 0 {
		return "-"
	}
	var ke kafka.Error
	if err != nil {
		if !errors.As(err, &ke) {
			return "net"
		}
	} else {
		ke = kafka.Error(code)
	}
	switch int(ke) {
	case 27:
		return "rb"
	case 3:
		return "ut"
	}
	return "k"
}

// ClassOfHook converts the library's verifGroupErr rendering.
func ClassOfHook(s string) string {
	switch {
	case s == "nil":
		return "-"
	case s == "closed":
		return "cl"
	case s == "k27":
		return "rb"
	case s == "k3":
		return "ut"
	case strings.HasPrefix(s, "k"):
		return "k"
	}
	return "net"
}

func Mem(s string) string {
	if s == "" || s == `""` {
		return "_"
	}
	return s
}

// Offsets renders topic->partition->offset canonically: "t/p@o,…" sorted, "-" when empty.
func Offsets(m map[string]map[int]int64) string {
	var parts []string
	for t, ps := range m {
		for p, o := range ps {
			parts = append(parts, fmt.Sprintf("%s/%d@%d", t, p, o))
		}
	}
	sort.Strings(parts)
	if len(parts) == 0 {
		return "-"
	}
	return strings.Join(parts, ",")
}

func (m *Mock) Handle(c kafka.VerifCoordCall) kafka.VerifCoordReply {
	if c.Method == "wirebody" { // byte-level path: the response body the peer is about to write
		m.mu.Lock()
		d := c.Desc
		if d == "" {
			d = "-"
		}
		m.Bodies = append(m.Bodies, fmt.Sprintf("wirebody %s %s\t%x", c.Of, d, c.Body))
		m.mu.Unlock()
		return kafka.VerifCoordReply{}
	}
	if c.Method == "wirereq" { // byte-level path: the request body the library's Conn wrote, with what it carries
		m.mu.Lock()
		d := c.Desc
		if d == "" {
			d = "-"
		}
		m.Bodies = append(m.Bodies, fmt.Sprintf("wirereq %s %s\t%x", c.Of, strings.ReplaceAll(d, " ", "_"), c.Body))
		m.mu.Unlock()
		return kafka.VerifCoordReply{}
	}
	if c.Method == "outcome" { // byte-level path: what the library's real Conn call concluded
		kafka.VerifGroupEmit("M.Wire", c.Conn, c.Of, ClassOfHook(c.Outcome))
		return kafka.VerifCoordReply{}
	}
	if c.Method == "close" {
		kafka.VerifGroupEmit("M.Close", c.Conn)
		return kafka.VerifCoordReply{}
	}
	topics := strings.Join(c.Topics, ",")
	if c.Method == "connect" {
		topics = strings.Join(c.Addrs, ",") // lets a multi-member harness attribute the connection
	}
	kafka.VerifGroupEmit("M.Call", c.Conn, c.Method, Mem(c.MemberID), c.GenerationID, topics, Offsets(c.Offsets))
	var r kafka.VerifCoordReply
	if c.Dead { // byte-level path, connection already dropped: the call fails locally, nothing to decide
		r = kafka.VerifCoordReply{Err: errors.New("connection is dead")}
		m.emitRet(c, r)
		return r
	}
	if m.Auto != nil {
		if a, ok := m.Auto(c); ok {
			r = a
			m.emitRet(c, r)
			return r
		}
	}
	p := &Pending{Call: c, reply: make(chan kafka.VerifCoordReply, 1)}
	m.mu.Lock()
	m.seq++
	p.Seq = m.seq
	m.pending = append(m.pending, p)
	m.cond.Broadcast()
	m.mu.Unlock()
	r = <-p.reply
	m.emitRet(c, r)
	return r
}

func (m *Mock) emitRet(c kafka.VerifCoordCall, r kafka.VerifCoordReply) {
	kafka.VerifGroupEmit("M.Ret", c.Conn, c.Method, ErrClass(r.Err, r.ErrorCode), Mem(c.MemberID), c.GenerationID,
		Mem(r.MemberID), r.GenerationID, r.MemberID != "" && r.MemberID == r.LeaderID, len(r.Parts), strings.Join(c.Topics, ","),
		Assign(r.Assignments), Committed(r.Committed))
}

// Assign renders a SyncGroup assignment: "t/p,t/p" (topics sorted, partitions in list order), "-" when empty.
func Assign(a map[string][]int32) string {
	var topics []string
	for t := range a {
		topics = append(topics, t)
	}
	sort.Strings(topics)
	var parts []string
	for _, t := range topics {
		for _, p := range a[t] {
			parts = append(parts, fmt.Sprintf("%s/%d", t, p))
		}
	}
	if len(parts) == 0 {
		return "-"
	}
	return strings.Join(parts, ",")
}

// Committed renders an OffsetFetch answer in wire order: "t/p@o,…", "-" when empty.
func Committed(cs []kafka.VerifGroupOffset) string {
	var parts []string
	for _, c := range cs {
		parts = append(parts, fmt.Sprintf("%s/%d@%d", c.Topic, c.Partition, c.Offset))
	}
	if len(parts) == 0 {
		return "-"
	}
	return strings.Join(parts, ",")
}

// TakeBodies returns and clears the recorded response bodies.
func (m *Mock) TakeBodies() []string {
	m.mu.Lock()
	defer m.mu.Unlock()
	b := m.Bodies
	m.Bodies = nil
	return b
}

// Snapshot returns the parked calls (oldest first).
func (m *Mock) Snapshot() []*Pending {
	m.mu.Lock()
	defer m.mu.Unlock()
	return append([]*Pending(nil), m.pending...)
}

// Answer releases a parked call.
func (m *Mock) Answer(p *Pending, r kafka.VerifCoordReply) {
	m.mu.Lock()
	for i, q := range m.pending {
		if q == p {
			m.pending = append(m.pending[:i], m.pending[i+1:]...)
			break
		}
	}
	m.mu.Unlock()
	p.reply <- r
}

// Await blocks until a parked call satisfies pred (or the timeout passes: nil).
func (m *Mock) Await(pred func(*Pending) bool, timeout time.Duration) *Pending {
	deadline := time.Now().Add(timeout)
	t := time.AfterFunc(timeout, func() { m.mu.Lock(); m.cond.Broadcast(); m.mu.Unlock() })
	defer t.Stop()
	m.mu.Lock()
	defer m.mu.Unlock()
	for {
		for _, p := range m.pending {
			if pred(p) {
				return p
			}
		}
		if !time.Now().Before(deadline) {
			return nil
		}
		m.cond.Wait()
	}
}

// AwaitAny waits until at least one call is parked.
func (m *Mock) AwaitAny(timeout time.Duration) bool {
	return m.Await(func(*Pending) bool { return true }, timeout) != nil
}

// Method is a predicate helper.
func Method(names ...string) func(*Pending) bool {
	return func(p *Pending) bool {
		for _, n := range names {
			if p.Call.Method == n {
				return true
			}
		}
		return false
	}
}

// Log is a sink-fed copy of the event log with waiting.
type Log struct {
	mu   sync.Mutex
	cond *sync.Cond
	evs  []kafka.VerifEvent
}

func NewLog() *Log {
	l := &Log{}
	l.cond = sync.NewCond(&l.mu)
	return l
}

func (l *Log) Sink(e kafka.VerifEvent) {
	l.mu.Lock()
	l.evs = append(l.evs, e)
	l.cond.Broadcast()
	l.mu.Unlock()
}

// Count returns the number of recorded events satisfying pred.
func (l *Log) Count(pred func(kafka.VerifEvent) bool) int {
	l.mu.Lock()
	defer l.mu.Unlock()
	n := 0
	for _, e := range l.evs {
		if pred(e) {
			n++
		}
	}
	return n
}

// Snapshot returns a copy of the events seen so far (sink order).
func (l *Log) Snapshot() []kafka.VerifEvent {
	l.mu.Lock()
	defer l.mu.Unlock()
	return append([]kafka.VerifEvent(nil), l.evs...)
}

func (l *Log) Len() int {
	l.mu.Lock()
	defer l.mu.Unlock()
	return len(l.evs)
}

// WaitCount waits until at least n events satisfy pred.
func (l *Log) WaitCount(pred func(kafka.VerifEvent) bool, n int, timeout time.Duration) bool {
	deadline := time.Now().Add(timeout)
	t := time.AfterFunc(timeout, func() { l.mu.Lock(); l.cond.Broadcast(); l.mu.Unlock() })
	defer t.Stop()
	l.mu.Lock()
	defer l.mu.Unlock()
	for {
		c := 0
		for _, e := range l.evs {
			if pred(e) {
				c++
			}
		}
		if c >= n {
			return true
		}
		if !time.Now().Before(deadline) {
			return false
		}
		l.cond.Wait()
	}
}

// Kind is a predicate helper.
func Kind(k string) func(kafka.VerifEvent) bool {
	return func(e kafka.VerifEvent) bool { return e.Kind == k }
}

// Settle waits until the log has not grown for `quiet`.
func (l *Log) Settle(quiet time.Duration, max time.Duration) {
	end := time.Now().Add(max)
	n := l.Len()
	for time.Now().Before(end) {
		time.Sleep(quiet)
		m := l.Len()
		if m == n {
			return
		}
		n = m
	}
}
