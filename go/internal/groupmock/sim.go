package groupmock

import (
	"fmt"
	"sort"
	"strings"

	kafka "github.com/segmentio/kafka-go"
)

// Sim is a small group coordinator for several members sharing one Mock: member table, generations, the join
// barrier (JoinGroup answers are held until every known member has re-joined), leader-computed assignments
// distributed by SyncGroup, a committed-offset store, and the usual rejections (UnknownMemberId for evicted members,
// IllegalGeneration for stale generations, RebalanceInProgress while a rebalance is pending).
//
// Connections are attributed to harness members by the broker address: member k is configured with broker "b<k>:9092"
// and FindCoordinator answers "coord<k>:9092".
type Sim struct {
	Topics     []string
	NParts     int
	members    map[string]bool // member id -> has re-joined for the pending generation
	owner      map[string]int  // member id -> harness member index
	gen        int32
	rebalance  bool // a rebalance is pending (some member has to re-join)
	formed     bool // the pending generation has been formed (all joined); JoinGroup answers may go out
	leader     string
	assign     map[string]map[string][]int32 // from the leader's SyncGroup of generation `gen`
	Committed  map[string]int64              // "t/p" -> offset
	connOwner  map[int]int
	noted      map[int]string // pending join call seq -> member id given
	nextMember int
}

func NewSim(topics []string, nparts int) *Sim {
	return &Sim{Topics: topics, NParts: nparts, members: map[string]bool{}, owner: map[string]int{}, Committed: map[string]int64{},
		connOwner: map[int]int{}, noted: map[int]string{}}
}

func kerr(code int) kafka.VerifCoordReply { return kafka.VerifCoordReply{Err: kafka.Error(code)} }

// Owner returns the harness member index of a call (by connection).
func (s *Sim) Owner(c kafka.VerifCoordCall) int {
	if c.Method == "connect" {
		var k int
		for _, a := range c.Addrs {
			if _, err := fmt.Sscanf(a, "b%d:", &k); err == nil {
				return k
			}
			if _, err := fmt.Sscanf(a, "coord%d:", &k); err == nil {
				return k
			}
		}
		return -1
	}
	if k, ok := s.connOwner[c.Conn]; ok {
		return k
	}
	return -1
}

func (s *Sim) startRebalance() {
	s.rebalance, s.formed = true, false
	for id := range s.members {
		s.members[id] = false
	}
}

// Evict removes every member id owned by harness member k (session timeout).
func (s *Sim) Evict(k int) bool {
	hit := false
	for id, o := range s.owner {
		if o == k && s.hasMember(id) {
			delete(s.members, id)
			hit = true
		}
	}
	if hit && len(s.members) > 0 {
		s.startRebalance()
	}
	return hit
}

func (s *Sim) hasMember(id string) bool { _, ok := s.members[id]; return ok }

// Rebalancing reports whether members should be told to re-join.
func (s *Sim) Rebalancing() bool { return s.rebalance }

// Answer decides a parked call; ready=false means "keep it parked" (join barrier, follower sync before the leader's).
func (s *Sim) Answer(p *Pending) (r kafka.VerifCoordReply, ready bool) {
	c := p.Call
	k := s.Owner(c)
	switch c.Method {
	case "connect":
		s.connOwner[c.Conn] = k
		return kafka.VerifCoordReply{}, true
	case "findCoordinator":
		return kafka.VerifCoordReply{Host: fmt.Sprintf("coord%d", k), Port: 9092}, true
	case "readPartitions":
		var ps []kafka.Partition
		for _, t := range c.Topics {
			for i := 0; i < s.NParts; i++ {
				ps = append(ps, kafka.Partition{Topic: t, ID: i})
			}
		}
		return kafka.VerifCoordReply{Parts: ps}, true
	case "joinGroup":
		id, seen := s.noted[p.Seq]
		if !seen {
			id = c.MemberID
			if id == "" || !s.hasMember(id) {
				if id != "" { // unknown (evicted) member id
					s.noted[p.Seq] = "!"
					return kerr(25), true
				}
				s.nextMember++
				id = fmt.Sprintf("m%d", s.nextMember)
				s.owner[id] = k
				s.members[id] = false
			}
			if !s.rebalance || s.formed {
				s.startRebalance()
			}
			s.members[id] = true
			s.noted[p.Seq] = id
		}
		if !s.hasMember(id) { // evicted while waiting
			return kerr(25), true
		}
		s.members[id] = true // a parked join counts for whatever round is pending
		if !s.formed {
			for _, joined := range s.members {
				if !joined {
					return r, false
				}
			}
			s.formed = true
			s.gen++
			s.assign = nil
			s.leader = s.ids()[0]
		}
		r = kafka.VerifCoordReply{MemberID: id, GenerationID: s.gen, Protocol: "range", LeaderID: s.leader}
		if id == s.leader {
			for _, m := range s.ids() {
				r.Members = append(r.Members, kafka.VerifGroupMember{ID: m, Topics: s.Topics})
			}
		}
		return r, true
	case "syncGroup":
		if !s.hasMember(c.MemberID) {
			return kerr(25), true
		}
		if c.GenerationID != s.gen {
			return kerr(22), true
		}
		if !s.formed {
			return kerr(27), true
		}
		if c.MemberID == s.leader && c.Assign != nil && s.assign == nil {
			s.assign = c.Assign
			s.rebalance = false
		}
		if s.assign == nil {
			return r, false
		}
		return kafka.VerifCoordReply{Assignments: s.assign[c.MemberID]}, true
	case "offsetFetch":
		var cm []kafka.VerifGroupOffset
		for _, t := range c.Topics {
			for _, pt := range c.Partitions[t] {
				o, ok := s.Committed[fmt.Sprintf("%s/%d", t, pt)]
				if !ok {
					o = -1
				}
				cm = append(cm, kafka.VerifGroupOffset{Topic: t, Partition: pt, Offset: o})
			}
		}
		return kafka.VerifCoordReply{Committed: cm}, true
	case "heartbeat":
		switch {
		case !s.hasMember(c.MemberID):
			return kerr(25), true
		case c.GenerationID != s.gen:
			return kerr(22), true
		case s.rebalance:
			return kerr(27), true
		}
		return kafka.VerifCoordReply{}, true
	case "offsetCommit":
		switch {
		case !s.hasMember(c.MemberID):
			return kerr(25), true
		case c.GenerationID != s.gen:
			return kerr(22), true
		}
		for t, ps := range c.Offsets {
			for pt, o := range ps {
				s.Committed[fmt.Sprintf("%s/%d", t, pt)] = o
			}
		}
		return kafka.VerifCoordReply{}, true
	case "leaveGroup":
		if s.hasMember(c.MemberID) {
			delete(s.members, c.MemberID)
			if len(s.members) > 0 {
				s.startRebalance()
			} else {
				s.rebalance, s.formed = false, false
			}
		}
		return kafka.VerifCoordReply{}, true
	}
	return kafka.VerifCoordReply{}, true
}

func (s *Sim) ids() []string {
	var ids []string
	for id := range s.members {
		ids = append(ids, id)
	}
	sort.Strings(ids)
	return ids
}

// String is a debugging aid.
func (s *Sim) String() string {
	return fmt.Sprintf("gen=%d rebalance=%v formed=%v members=%s", s.gen, s.rebalance, s.formed, strings.Join(s.ids(), ","))
}
