package groupmock

// GBroker: a group coordinator speaking the wire protocol on net.Pipe connections handed out by Dial — usable as
// kafka.Dialer.DialFunc of a ConsumerGroupConfig WITHOUT the verif coordinator handler, so that the library's own
// makeConnect -> Dialer.Dial -> timeoutCoordinator -> Conn path runs end to end (the mock at the `coordinator` interface
// and the byte-level peer of the hook file both replace makeConnect).  One member, one topic; its use is time: every
// response can be held (or withheld for good), and every request's arrival time is journalled.
//
// Requests are decoded with protocol.ReadRequest and answered with protocol.WriteResponse.

import (
	"context"
	"encoding/binary"
	"net"
	"sync"
	"time"

	"github.com/segmentio/kafka-go/protocol"
	"github.com/segmentio/kafka-go/protocol/apiversions"
	"github.com/segmentio/kafka-go/protocol/findcoordinator"
	"github.com/segmentio/kafka-go/protocol/heartbeat"
	"github.com/segmentio/kafka-go/protocol/joingroup"
	"github.com/segmentio/kafka-go/protocol/leavegroup"
	"github.com/segmentio/kafka-go/protocol/offsetcommit"
	"github.com/segmentio/kafka-go/protocol/offsetfetch"
	"github.com/segmentio/kafka-go/protocol/syncgroup"
)

type GReq struct {
	Method string
	Nth    int // 1-based count of requests of this method
	At     time.Time
	Member string
	Addr   string // address that was dialled for the connection the request arrived on
}

type GBroker struct {
	Topic string
	// Hold says how long the response to the nth request of a method is held; < 0: never answered.
	Hold func(method string, nth int) time.Duration

	mu    sync.Mutex
	reqs  []GReq
	count map[string]int
	gen   int32
	quit  chan struct{}
}

func NewGBroker(topic string) *GBroker {
	return &GBroker{Topic: topic, count: map[string]int{}, quit: make(chan struct{})}
}

func (b *GBroker) Stop() { close(b.quit) }

func (b *GBroker) Requests() []GReq {
	b.mu.Lock()
	defer b.mu.Unlock()
	return append([]GReq(nil), b.reqs...)
}

func (b *GBroker) Dial(ctx context.Context, network, address string) (net.Conn, error) {
	cli, srv := net.Pipe()
	go b.serve(srv, address)
	return cli, nil
}

func (b *GBroker) note(method, member, addr string) (int, time.Duration) {
	b.mu.Lock()
	defer b.mu.Unlock()
	b.count[method]++
	n := b.count[method]
	b.reqs = append(b.reqs, GReq{Method: method, Nth: n, At: time.Now(), Member: member, Addr: addr})
	if b.Hold != nil {
		return n, b.Hold(method, n)
	}
	return n, 0
}

// memberAssignment: version, [topic, [partition]], user data
func memberAssignment(topic string, parts ...int32) []byte {
	var w []byte
	w = binary.BigEndian.AppendUint16(w, 1)
	w = binary.BigEndian.AppendUint32(w, 1)
	w = binary.BigEndian.AppendUint16(w, uint16(len(topic)))
	w = append(w, topic...)
	w = binary.BigEndian.AppendUint32(w, uint32(len(parts)))
	for _, p := range parts {
		w = binary.BigEndian.AppendUint32(w, uint32(p))
	}
	w = binary.BigEndian.AppendUint32(w, 0)
	return w
}

func (b *GBroker) serve(c net.Conn, addr string) {
	defer c.Close()
	for {
		ver, id, _, msg, err := protocol.ReadRequest(c)
		if err != nil {
			return
		}
		var res protocol.Message
		method, member := "", ""
		switch req := msg.(type) {
		case *apiversions.Request:
			r := &apiversions.Response{}
			for k, mv := range map[int16]int16{8: 2, 9: 1, 10: 0, 11: 1, 12: 0, 13: 0, 14: 0, 18: 0, 3: 1} {
				r.ApiKeys = append(r.ApiKeys, apiversions.ApiKeyResponse{ApiKey: k, MinVersion: 0, MaxVersion: mv})
			}
			method, res = "apiVersions", r
		case *findcoordinator.Request:
			method, res = "findCoordinator", &findcoordinator.Response{NodeID: 1, Host: "coord", Port: 9092}
		case *joingroup.Request:
			b.mu.Lock()
			b.gen++
			g := b.gen
			b.mu.Unlock()
			member = req.MemberID
			m := req.MemberID
			if m == "" {
				m = "m1"
			}
			method, res = "joinGroup", &joingroup.Response{GenerationID: g, ProtocolName: "range", LeaderID: "other", MemberID: m}
		case *syncgroup.Request:
			member = req.MemberID
			method, res = "syncGroup", &syncgroup.Response{Assignments: memberAssignment(b.Topic, 0)}
		case *offsetfetch.Request:
			method, res = "offsetFetch", &offsetfetch.Response{Topics: []offsetfetch.ResponseTopic{{Name: b.Topic,
				Partitions: []offsetfetch.ResponsePartition{{PartitionIndex: 0, CommittedOffset: -1}}}}}
		case *heartbeat.Request:
			member = req.MemberID
			method, res = "heartbeat", &heartbeat.Response{}
		case *leavegroup.Request:
			member = req.MemberID
			method, res = "leaveGroup", &leavegroup.Response{}
		case *offsetcommit.Request:
			member = req.MemberID
			r := &offsetcommit.Response{}
			for _, t := range req.Topics {
				rt := offsetcommit.ResponseTopic{Name: t.Name}
				for _, p := range t.Partitions {
					rt.Partitions = append(rt.Partitions, offsetcommit.ResponsePartition{PartitionIndex: p.PartitionIndex})
				}
				r.Topics = append(r.Topics, rt)
			}
			method, res = "offsetCommit", r
		default:
			return
		}
		_, hold := b.note(method, member, addr)
		if hold < 0 {
			<-b.quit
			return
		}
		if hold > 0 {
			select {
			case <-time.After(hold):
			case <-b.quit:
				return
			}
		}
		if err := protocol.WriteResponse(c, ver, id, res); err != nil {
			return
		}
	}
}
