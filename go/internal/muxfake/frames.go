// Package muxfake: byte-level helpers for the in-process fake brokers of the C06 / C18 drivers
// (connections are net.Pipe ends handed to kafka-go through Dialer.DialFunc / Transport.Dial / NewConn).
//
// Responses are encoded with kafka-go's own protocol.WriteResponse: the codec is not what C06/C18
// are about (C04 checks it), the fake only has to speak well-formed Kafka.
package muxfake

import (
	"bytes"
	"encoding/binary"
	"fmt"
	"io"

	"github.com/segmentio/kafka-go/protocol"
	// register the message types the fakes decode / encode
	_ "github.com/segmentio/kafka-go/protocol/apiversions"
	_ "github.com/segmentio/kafka-go/protocol/fetch"
	_ "github.com/segmentio/kafka-go/protocol/findcoordinator"
	_ "github.com/segmentio/kafka-go/protocol/listoffsets"
	_ "github.com/segmentio/kafka-go/protocol/metadata"
	_ "github.com/segmentio/kafka-go/protocol/offsetfetch"
	_ "github.com/segmentio/kafka-go/protocol/saslauthenticate"
	_ "github.com/segmentio/kafka-go/protocol/saslhandshake"
)

// ReadFrame reads one size-prefixed frame and returns its payload (without the 4 size bytes).
func ReadFrame(r io.Reader) ([]byte, error) {
	var h [4]byte
	if _, err := io.ReadFull(r, h[:]); err != nil {
		return nil, err
	}
	n := int32(binary.BigEndian.Uint32(h[:]))
	if n < 0 || n > 1<<24 {
		return nil, fmt.Errorf("muxfake: frame size %d", n)
	}
	b := make([]byte, n)
	if _, err := io.ReadFull(r, b); err != nil {
		return nil, err
	}
	return b, nil
}

// Header is a Kafka request header (v1: api key, version, correlation id, client id).
type Header struct {
	Key, Ver int16
	Corr     int32
	ClientID string
	Body     []byte // the bytes after the header
}

func ParseHeader(frame []byte) (h Header, err error) {
	if len(frame) < 10 {
		return h, fmt.Errorf("muxfake: short request header (%d bytes)", len(frame))
	}
	h.Key = int16(binary.BigEndian.Uint16(frame[0:]))
	h.Ver = int16(binary.BigEndian.Uint16(frame[2:]))
	h.Corr = int32(binary.BigEndian.Uint32(frame[4:]))
	n := int(int16(binary.BigEndian.Uint16(frame[8:])))
	off := 10
	if n > 0 {
		if off+n > len(frame) {
			return h, fmt.Errorf("muxfake: short client id")
		}
		h.ClientID = string(frame[off : off+n])
		off += n
	}
	h.Body = frame[off:]
	return h, nil
}

// Decode decodes a whole request frame with kafka-go's protocol package.
func Decode(frame []byte) (protocol.Message, error) {
	var sz [4]byte
	binary.BigEndian.PutUint32(sz[:], uint32(len(frame)))
	_, _, _, msg, err := protocol.ReadRequest(io.MultiReader(bytes.NewReader(sz[:]), bytes.NewReader(frame)))
	return msg, err
}

// Encode renders a response frame (size prefix included).
func Encode(ver int16, corr int32, msg protocol.Message) ([]byte, error) {
	var b bytes.Buffer
	if err := protocol.WriteResponse(&b, ver, corr, msg); err != nil {
		return nil, err
	}
	return b.Bytes(), nil
}

// RawFrame renders a 4-byte length followed by the bytes (SASL v0 raw exchange).
func RawFrame(data []byte) []byte {
	b := make([]byte, 4+len(data))
	binary.BigEndian.PutUint32(b, uint32(len(data)))
	copy(b[4:], data)
	return b
}
