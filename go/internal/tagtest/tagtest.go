// Package tagtest registers, in the DRIVER process only, a message type with real id-tagged fields
// (`kafka:"…,tag=N"`) under an API key the library does not use (LeaderAndIsr = 4).  The pinned tree declares no
// such field, so this is the only way to run the real encoder / decoder of protocol/ on tagged fields; its
// struct tags are extracted by go/extract/schemas like those of every other registered type.
package tagtest

import "github.com/segmentio/kafka-go/protocol"

func init() {
	protocol.Register(&Request{}, &Response{})
}

type Request struct {
	A     int16   `kafka:"min=v0,max=v2"`
	Late  string  `kafka:"min=v1,max=v2,tag=5"`
	First int32   `kafka:"min=v1,max=v2,tag=0"`
	List  []int32 `kafka:"min=v2,max=v2,tag=2,nullable"`
	B     string  `kafka:"min=v0,max=v2,nullable"`
}

func (r *Request) ApiKey() protocol.ApiKey { return protocol.LeaderAndIsr }

type Response struct {
	_     struct{} `kafka:"min=v1,max=v2,tag"`
	Code  int16    `kafka:"min=v0,max=v2"`
	Items []Item   `kafka:"min=v0,max=v2"`
	Note  []byte   `kafka:"min=v1,max=v2,tag=1"`
	Sub   Item     `kafka:"min=v2,max=v2,tag=0"`
}

func (r *Response) ApiKey() protocol.ApiKey { return protocol.LeaderAndIsr }

type Item struct {
	Name string `kafka:"min=v0,max=v2"`
	Hint string `kafka:"min=v1,max=v2,tag=3"`
}
