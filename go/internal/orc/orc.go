// Package orc: the compiled Lean oracle as a co-process (line protocol), for drivers that need the
// reference side to *emit* bytes (Spec encoders) while they run.  Path from $VERIF_ORACLE.
package orc

import (
	"bufio"
	"fmt"
	"io"
	"os"
	"os/exec"
	"strings"
)

type Oracle struct {
	cmd *exec.Cmd
	in  io.WriteCloser
	out *bufio.Reader
}

func Start() (*Oracle, error) {
	path := os.Getenv("VERIF_ORACLE")
	if path == "" {
		return nil, fmt.Errorf("VERIF_ORACLE not set")
	}
	cmd := exec.Command(path)
	in, err := cmd.StdinPipe()
	if err != nil {
		return nil, err
	}
	out, err := cmd.StdoutPipe()
	if err != nil {
		return nil, err
	}
	cmd.Stderr = os.Stderr
	if err := cmd.Start(); err != nil {
		return nil, err
	}
	return &Oracle{cmd: cmd, in: in, out: bufio.NewReaderSize(out, 1<<20)}, nil
}

// Ask sends one request line and returns the one answer line.
func (o *Oracle) Ask(line string) (string, error) {
	if _, err := io.WriteString(o.in, line+"\n"); err != nil {
		return "", err
	}
	s, err := o.out.ReadString('\n')
	if err != nil {
		return "", err
	}
	return strings.TrimRight(s, "\n"), nil
}

func (o *Oracle) Close() {
	o.in.Close()
	o.cmd.Wait()
}
