package fakecluster

// Hand-written encoders for the responses of the offset APIs, transcribed from the Kafka protocol guide
// (https://kafka.apache.org/protocol#protocol_messages) — NOT driven by the library's struct tags: a wrong version
// range on a field of the library's Response types must show up as a decoding difference, which it cannot when the
// broker side encodes with the same tags.

import (
	"encoding/binary"
	"net"

	"github.com/segmentio/kafka-go/protocol"
	"github.com/segmentio/kafka-go/protocol/listoffsets"
	"github.com/segmentio/kafka-go/protocol/offsetcommit"
	"github.com/segmentio/kafka-go/protocol/offsetfetch"
)

type rawBuf struct{ b []byte }

func (w *rawBuf) i16(v int16) { w.b = binary.BigEndian.AppendUint16(w.b, uint16(v)) }
func (w *rawBuf) i32(v int32) { w.b = binary.BigEndian.AppendUint32(w.b, uint32(v)) }
func (w *rawBuf) i64(v int64) { w.b = binary.BigEndian.AppendUint64(w.b, uint64(v)) }
func (w *rawBuf) str(s string) {
	w.i16(int16(len(s)))
	w.b = append(w.b, s...)
}

// nullable string: the fake never distinguishes "" from null for metadata; Kafka sends "" for absent metadata
func (w *rawBuf) nstr(s string) { w.str(s) }

// OffsetFetch response, v0–v5:
//
//	[v3+] throttle_time_ms INT32
//	topics ARRAY { name STRING, partitions ARRAY { partition_index INT32, committed_offset INT64,
//	               [v5+] committed_leader_epoch INT32, metadata NULLABLE_STRING, error_code INT16 } }
//	[v2+] error_code INT16
func encodeOffsetFetchResponse(ver int16, r *offsetfetch.Response) []byte {
	w := &rawBuf{}
	if ver >= 3 {
		w.i32(r.ThrottleTimeMs)
	}
	w.i32(int32(len(r.Topics)))
	for _, t := range r.Topics {
		w.str(t.Name)
		w.i32(int32(len(t.Partitions)))
		for _, p := range t.Partitions {
			w.i32(p.PartitionIndex)
			w.i64(p.CommittedOffset)
			if ver >= 5 {
				w.i32(p.ComittedLeaderEpoch)
			}
			w.nstr(p.Metadata)
			w.i16(p.ErrorCode)
		}
	}
	if ver >= 2 {
		w.i16(r.ErrorCode)
	}
	return w.b
}

// ListOffsets response, v1–v5:
//
//	[v2+] throttle_time_ms INT32
//	topics ARRAY { name STRING, partitions ARRAY { partition_index INT32, error_code INT16, timestamp INT64,
//	               offset INT64, [v4+] leader_epoch INT32 } }
func encodeListOffsetsResponse(ver int16, r *listoffsets.Response) []byte {
	w := &rawBuf{}
	if ver >= 2 {
		w.i32(r.ThrottleTimeMs)
	}
	w.i32(int32(len(r.Topics)))
	for _, t := range r.Topics {
		w.str(t.Topic)
		w.i32(int32(len(t.Partitions)))
		for _, p := range t.Partitions {
			w.i32(p.Partition)
			w.i16(p.ErrorCode)
			w.i64(p.Timestamp)
			w.i64(p.Offset)
			if ver >= 4 {
				w.i32(p.LeaderEpoch)
			}
		}
	}
	return w.b
}

// OffsetCommit response, v0–v7:
//
//	[v3+] throttle_time_ms INT32
//	topics ARRAY { name STRING, partitions ARRAY { partition_index INT32, error_code INT16 } }
func encodeOffsetCommitResponse(ver int16, r *offsetcommit.Response) []byte {
	w := &rawBuf{}
	if ver >= 3 {
		w.i32(r.ThrottleTimeMs)
	}
	w.i32(int32(len(r.Topics)))
	for _, t := range r.Topics {
		w.str(t.Name)
		w.i32(int32(len(t.Partitions)))
		for _, p := range t.Partitions {
			w.i32(p.PartitionIndex)
			w.i16(p.ErrorCode)
		}
	}
	return w.b
}

// rawResponse returns the hand-encoded body of res at ver, or nil when this file has no encoder for it.
func rawResponse(ver int16, res protocol.Message) []byte {
	switch r := res.(type) {
	case *offsetfetch.Response:
		if ver >= 0 && ver <= 5 {
			return encodeOffsetFetchResponse(ver, r)
		}
	case *listoffsets.Response:
		if ver >= 1 && ver <= 5 {
			return encodeListOffsetsResponse(ver, r)
		}
	case *offsetcommit.Response:
		if ver >= 0 && ver <= 7 {
			return encodeOffsetCommitResponse(ver, r)
		}
	}
	return nil
}

// writeRawResponse frames a response (header v0: correlation id only; the three APIs above are not flexible).
func writeRawResponse(conn net.Conn, corr int32, body []byte) error {
	w := &rawBuf{}
	w.i32(int32(4 + len(body)))
	w.i32(corr)
	w.b = append(w.b, body...)
	_, err := conn.Write(w.b)
	return err
}
