// Package fakecluster is an in-process multi-broker kafka cluster for the C12/C19 drivers.
//
// Connections are net.Pipe pairs handed out by Dial (plug it into kafka.Transport.Dial or use Pipe for a
// kafka.Conn); every broker serves its end with the library's own protocol.ReadRequest /
// protocol.WriteResponse, answers ApiVersions (per-broker tables), Metadata, FindCoordinator, ListOffsets,
// OffsetFetch, OffsetCommit, CreateTopics from the cluster state and every other API with the zero response
// of the right type, and records (broker, api key, version, decoded request) in a journal.
package fakecluster

import (
	"context"
	"errors"
	"fmt"
	"io"
	"math/rand"
	"net"
	"sort"
	"strconv"
	"sync"
	"time"

	"github.com/segmentio/kafka-go/protocol"
	"github.com/segmentio/kafka-go/protocol/addoffsetstotxn"
	"github.com/segmentio/kafka-go/protocol/addpartitionstotxn"
	"github.com/segmentio/kafka-go/protocol/alterclientquotas"
	"github.com/segmentio/kafka-go/protocol/alterconfigs"
	"github.com/segmentio/kafka-go/protocol/alterpartitionreassignments"
	"github.com/segmentio/kafka-go/protocol/alteruserscramcredentials"
	"github.com/segmentio/kafka-go/protocol/apiversions"
	"github.com/segmentio/kafka-go/protocol/createacls"
	"github.com/segmentio/kafka-go/protocol/createpartitions"
	"github.com/segmentio/kafka-go/protocol/createtopics"
	"github.com/segmentio/kafka-go/protocol/deleteacls"
	"github.com/segmentio/kafka-go/protocol/deletegroups"
	"github.com/segmentio/kafka-go/protocol/deletetopics"
	"github.com/segmentio/kafka-go/protocol/describeacls"
	"github.com/segmentio/kafka-go/protocol/describeclientquotas"
	"github.com/segmentio/kafka-go/protocol/describeconfigs"
	"github.com/segmentio/kafka-go/protocol/describegroups"
	"github.com/segmentio/kafka-go/protocol/describeuserscramcredentials"
	"github.com/segmentio/kafka-go/protocol/electleaders"
	"github.com/segmentio/kafka-go/protocol/endtxn"
	"github.com/segmentio/kafka-go/protocol/fetch"
	"github.com/segmentio/kafka-go/protocol/findcoordinator"
	"github.com/segmentio/kafka-go/protocol/heartbeat"
	"github.com/segmentio/kafka-go/protocol/incrementalalterconfigs"
	"github.com/segmentio/kafka-go/protocol/initproducerid"
	"github.com/segmentio/kafka-go/protocol/joingroup"
	"github.com/segmentio/kafka-go/protocol/leavegroup"
	"github.com/segmentio/kafka-go/protocol/listgroups"
	"github.com/segmentio/kafka-go/protocol/listoffsets"
	"github.com/segmentio/kafka-go/protocol/listpartitionreassignments"
	"github.com/segmentio/kafka-go/protocol/metadata"
	"github.com/segmentio/kafka-go/protocol/offsetcommit"
	"github.com/segmentio/kafka-go/protocol/offsetdelete"
	"github.com/segmentio/kafka-go/protocol/offsetfetch"
	"github.com/segmentio/kafka-go/protocol/produce"
	_ "github.com/segmentio/kafka-go/protocol/rawproduce"
	"github.com/segmentio/kafka-go/protocol/saslauthenticate"
	"github.com/segmentio/kafka-go/protocol/saslhandshake"
	"github.com/segmentio/kafka-go/protocol/syncgroup"
	"github.com/segmentio/kafka-go/protocol/txnoffsetcommit"
)

// ZeroResponses maps an API key to a constructor of its (empty) response.
var ZeroResponses = map[protocol.ApiKey]func() protocol.Message{
	protocol.Produce:                      func() protocol.Message { return &produce.Response{} },
	protocol.Fetch:                        func() protocol.Message { return &fetch.Response{} },
	protocol.ListOffsets:                  func() protocol.Message { return &listoffsets.Response{} },
	protocol.Metadata:                     func() protocol.Message { return &metadata.Response{} },
	protocol.OffsetCommit:                 func() protocol.Message { return &offsetcommit.Response{} },
	protocol.OffsetFetch:                  func() protocol.Message { return &offsetfetch.Response{} },
	protocol.FindCoordinator:              func() protocol.Message { return &findcoordinator.Response{} },
	protocol.JoinGroup:                    func() protocol.Message { return &joingroup.Response{} },
	protocol.Heartbeat:                    func() protocol.Message { return &heartbeat.Response{} },
	protocol.LeaveGroup:                   func() protocol.Message { return &leavegroup.Response{} },
	protocol.SyncGroup:                    func() protocol.Message { return &syncgroup.Response{} },
	protocol.DescribeGroups:               func() protocol.Message { return &describegroups.Response{} },
	protocol.ListGroups:                   func() protocol.Message { return &listgroups.Response{} },
	protocol.SaslHandshake:                func() protocol.Message { return &saslhandshake.Response{} },
	protocol.ApiVersions:                  func() protocol.Message { return &apiversions.Response{} },
	protocol.CreateTopics:                 func() protocol.Message { return &createtopics.Response{} },
	protocol.DeleteTopics:                 func() protocol.Message { return &deletetopics.Response{} },
	protocol.InitProducerId:               func() protocol.Message { return &initproducerid.Response{} },
	protocol.AddPartitionsToTxn:           func() protocol.Message { return &addpartitionstotxn.Response{} },
	protocol.AddOffsetsToTxn:              func() protocol.Message { return &addoffsetstotxn.Response{} },
	protocol.EndTxn:                       func() protocol.Message { return &endtxn.Response{} },
	protocol.TxnOffsetCommit:              func() protocol.Message { return &txnoffsetcommit.Response{} },
	protocol.DescribeAcls:                 func() protocol.Message { return &describeacls.Response{} },
	protocol.CreateAcls:                   func() protocol.Message { return &createacls.Response{} },
	protocol.DeleteAcls:                   func() protocol.Message { return &deleteacls.Response{} },
	protocol.DescribeConfigs:              func() protocol.Message { return &describeconfigs.Response{} },
	protocol.AlterConfigs:                 func() protocol.Message { return &alterconfigs.Response{} },
	protocol.SaslAuthenticate:             func() protocol.Message { return &saslauthenticate.Response{} },
	protocol.CreatePartitions:             func() protocol.Message { return &createpartitions.Response{} },
	protocol.DeleteGroups:                 func() protocol.Message { return &deletegroups.Response{} },
	protocol.ElectLeaders:                 func() protocol.Message { return &electleaders.Response{} },
	protocol.IncrementalAlterConfigs:      func() protocol.Message { return &incrementalalterconfigs.Response{} },
	protocol.AlterPartitionReassignments:  func() protocol.Message { return &alterpartitionreassignments.Response{} },
	protocol.ListPartitionReassignments:   func() protocol.Message { return &listpartitionreassignments.Response{} },
	protocol.OffsetDelete:                 func() protocol.Message { return &offsetdelete.Response{} },
	protocol.DescribeClientQuotas:         func() protocol.Message { return &describeclientquotas.Response{} },
	protocol.AlterClientQuotas:            func() protocol.Message { return &alterclientquotas.Response{} },
	protocol.DescribeUserScramCredentials: func() protocol.Message { return &describeuserscramcredentials.Response{} },
	protocol.AlterUserScramCredentials:    func() protocol.Message { return &alteruserscramcredentials.Response{} },
}

// RegisteredKeys lists the API keys the library registers, ascending.
func RegisteredKeys() []protocol.ApiKey {
	ks := make([]protocol.ApiKey, 0, len(ZeroResponses))
	for k := range ZeroResponses {
		ks = append(ks, k)
	}
	sort.Slice(ks, func(i, j int) bool { return ks[i] < ks[j] })
	return ks
}

type VRange struct{ Min, Max int16 }

// TimeIndex is one (timestamp, offset) point of a partition's log.
type TimeIndex struct {
	Timestamp int64
	Offset    int64
}

type Part struct {
	Leader   int32
	Replicas []int32
	Isr      []int32
	Offline  []int32
	Err      int16 // partition error in metadata
	First    int64
	Last     int64
	Times    []TimeIndex // ascending
	ListErr  int16       // error answered by ListOffsets for this partition (0 = none)
	Epoch    int32       // current leader epoch: a ListOffsets v4+ request naming another epoch (≥ 0) is refused, −1 means "do not check"
}

type Topic struct {
	Err      int16
	Internal bool
	Parts    map[int32]*Part
}

type Broker struct {
	ID   int32
	Host string
	Port int32
	Rack string
	// Versions advertised by this broker; nil = every registered key at the library's full range.
	// A key mapped to a range is advertised with that range; keys in Hidden are not advertised.
	Versions map[protocol.ApiKey]VRange
	Hidden   map[protocol.ApiKey]bool
	// ExtraVersions are appended verbatim to the ApiVersions answer (duplicates, unknown keys).
	ExtraVersions []apiversions.ApiKeyResponse
	Down          bool // Dial fails
}

// Fault scripts what happens to one metadata request (the n-th the cluster receives after the script was set).
type Fault struct {
	Kind  string        // "" answer normally, "stall" never answer (the connection stays open), "delay" answer after Delay, "drop" close the connection without answering
	Delay time.Duration // for "delay"
}

type Committed struct {
	Offset   int64
	Metadata string
}

type Entry struct {
	Seq     int
	Broker  int32
	ConnID  int
	ApiKey  protocol.ApiKey
	Version int16
	Req     protocol.Message
	Time    time.Time
	First   bool   // first request on its connection (the ApiVersions handshake of a Transport connection)
	Addr    string // the address that was dialled for the connection the request arrived on
}

type Cluster struct {
	mu         sync.Mutex
	ClusterID  string
	Controller int32
	Brokers    map[int32]*Broker
	Topics     map[string]*Topic
	GroupCoord map[string]int32 // explicit coordinators; others hash onto the sorted broker ids
	TxnCoord   map[string]int32
	CoordErr   map[string]int16 // FindCoordinator error per key
	Committed  map[string]map[string]map[int32]Committed
	CommitErr  map[string]map[int32]int16 // topic → partition → error answered by OffsetCommit / OffsetFetch
	GroupErr   map[string]int16           // group → error the coordinator answers OffsetFetch with (top level and on every partition)
	// AutoCreate: a metadata request with AllowAutoTopicCreation creates unknown topics (1 partition on the controller)
	AutoCreate bool

	// MetaFaults is consumed one element per metadata request received (front first); empty = answer normally.
	MetaFaults []Fault
	// DialFailures makes the next n Dial calls fail (any address).
	DialFailures int
	// FaultsDone counts consumed MetaFaults elements whose Kind is not ""; LastFaultAt is when the last one arrived.
	FaultsDone  int
	LastFaultAt time.Time

	journal    []Entry
	connSeq    int
	metaServed int
	lastMeta   *metadata.Response // last answer to a refresh of the transport (all topics, or its configured MetadataTopics)
	conns      map[int]connInfo
}

type connInfo struct {
	conn net.Conn
	addr string
}

func New() *Cluster {
	return &Cluster{
		ClusterID:  "fake",
		Brokers:    map[int32]*Broker{},
		Topics:     map[string]*Topic{},
		GroupCoord: map[string]int32{},
		TxnCoord:   map[string]int32{},
		CoordErr:   map[string]int16{},
		Committed:  map[string]map[string]map[int32]Committed{},
		CommitErr:  map[string]map[int32]int16{},
		GroupErr:   map[string]int16{},
		conns:      map[int]connInfo{},
	}
}

// Lock / Unlock let a driver mutate the exported state between requests.
func (c *Cluster) Lock()   { c.mu.Lock() }
func (c *Cluster) Unlock() { c.mu.Unlock() }

func (c *Cluster) AddBroker(id int32) *Broker {
	b := &Broker{ID: id, Host: "b" + strconv.Itoa(int(id)), Port: 9092}
	c.Brokers[id] = b
	return b
}

// PickBrokers chooses between min and max distinct broker ids out of 0..6 — broker id 0 is usually among them —
// and a bootstrap broker that is usually NOT broker 0 (id 0 is a valid id and must not be confused with "no broker").
func PickBrokers(r *rand.Rand, min, max int) (ids []int32, boot int32) {
	nb := min + r.Intn(max-min+1)
	perm := r.Perm(7)
	has0 := false
	for _, id := range perm[:nb] {
		ids = append(ids, int32(id))
		has0 = has0 || id == 0
	}
	if !has0 && r.Intn(4) != 0 {
		ids[r.Intn(nb)] = 0
	}
	boot = ids[r.Intn(nb)]
	if boot == 0 && nb > 1 && r.Intn(6) != 0 {
		for _, id := range ids {
			if id != 0 {
				boot = id
				break
			}
		}
	}
	return ids, boot
}

func (b *Broker) Addr() string { return net.JoinHostPort(b.Host, strconv.Itoa(int(b.Port))) }

func (c *Cluster) BrokerIDs() []int32 {
	ids := make([]int32, 0, len(c.Brokers))
	for id := range c.Brokers {
		ids = append(ids, id)
	}
	sort.Slice(ids, func(i, j int) bool { return ids[i] < ids[j] })
	return ids
}

// Mark returns the current journal length.
func (c *Cluster) Mark() int {
	c.mu.Lock()
	defer c.mu.Unlock()
	return len(c.journal)
}

// Since returns a copy of the journal entries recorded after mark.
func (c *Cluster) Since(mark int) []Entry {
	c.mu.Lock()
	defer c.mu.Unlock()
	return append([]Entry(nil), c.journal[mark:]...)
}

// MetaServed returns the number of metadata answers served so far.
func (c *Cluster) MetaServed() int {
	c.mu.Lock()
	defer c.mu.Unlock()
	return c.metaServed
}

// LastMeta returns the last answer to an all-topics metadata request.
func (c *Cluster) LastMeta() *metadata.Response {
	c.mu.Lock()
	defer c.mu.Unlock()
	return c.lastMeta
}

// Close closes every server-side connection.
func (c *Cluster) Close() {
	c.mu.Lock()
	defer c.mu.Unlock()
	for _, x := range c.conns {
		x.conn.Close()
	}
}

var ErrUnreachable = errors.New("fakecluster: broker unreachable")

// Dial has the signature of kafka.Transport.Dial.
func (c *Cluster) Dial(ctx context.Context, network, addr string) (net.Conn, error) {
	// like a real dialer: the address has to be host:port, an IPv6 literal host in brackets
	if _, _, err := net.SplitHostPort(addr); err != nil {
		return nil, fmt.Errorf("%w: %v", ErrUnreachable, err)
	}
	c.mu.Lock()
	var br *Broker
	for _, b := range c.Brokers {
		if b.Addr() == addr {
			br = b
		}
	}
	if c.DialFailures > 0 {
		c.DialFailures--
		c.mu.Unlock()
		return nil, fmt.Errorf("%w: %s (scripted dial failure)", ErrUnreachable, addr)
	}
	if br == nil || br.Down {
		c.mu.Unlock()
		return nil, fmt.Errorf("%w: %s", ErrUnreachable, addr)
	}
	id := br.ID
	c.mu.Unlock()
	return c.pipe(id, addr), nil
}

// Pipe opens a connection to broker id (at its current address) and returns the client end.
func (c *Cluster) Pipe(id int32) net.Conn {
	c.mu.Lock()
	addr := c.Brokers[id].Addr()
	c.mu.Unlock()
	return c.pipe(id, addr)
}

func (c *Cluster) pipe(id int32, addr string) net.Conn {
	cli, srv := net.Pipe()
	c.mu.Lock()
	c.connSeq++
	cid := c.connSeq
	c.conns[cid] = connInfo{srv, addr}
	c.mu.Unlock()
	go c.serve(id, cid, addr, srv)
	return cli
}

// MoveBroker re-registers broker id at another host:port (caller holds the lock): the process listening on
// the old address is gone, so every connection that was dialled there is closed.
func (c *Cluster) MoveBroker(id int32, host string, port int32) {
	b := c.Brokers[id]
	old := b.Addr()
	b.Host, b.Port = host, port
	if b.Addr() == old {
		return
	}
	for cid, x := range c.conns {
		if x.addr == old {
			x.conn.Close()
			delete(c.conns, cid)
		}
	}
}

func (c *Cluster) serve(broker int32, cid int, addr string, conn net.Conn) {
	defer conn.Close()
	first := true
	for {
		ver, corr, _, msg, err := protocol.ReadRequest(conn)
		if err != nil {
			return
		}
		c.mu.Lock()
		c.journal = append(c.journal, Entry{Seq: len(c.journal), Broker: broker, ConnID: cid, ApiKey: msg.ApiKey(), Version: ver, Req: msg, Time: time.Now(), First: first, Addr: addr})
		first = false
		var fault Fault
		if _, isMeta := msg.(*metadata.Request); isMeta && len(c.MetaFaults) > 0 {
			fault, c.MetaFaults = c.MetaFaults[0], c.MetaFaults[1:]
			if fault.Kind != "" {
				c.FaultsDone++
				c.LastFaultAt = time.Now()
			}
		}
		switch fault.Kind {
		case "stall": // never answer: hold the connection until the client gives up and closes it
			c.mu.Unlock()
			io.Copy(io.Discard, conn)
			return
		case "drop":
			c.mu.Unlock()
			return
		case "delay":
			c.mu.Unlock()
			time.Sleep(fault.Delay)
			c.mu.Lock()
		}
		res := c.handle(broker, ver, msg)
		c.mu.Unlock()
		if res == nil {
			continue
		}
		if body := rawResponse(ver, res); body != nil { // offset APIs: encoded by hand from the protocol guide
			if err := writeRawResponse(conn, corr, body); err != nil {
				return
			}
			continue
		}
		if err := protocol.WriteResponse(conn, ver, corr, res); err != nil {
			return
		}
	}
}

func (c *Cluster) apiVersions(b *Broker) *apiversions.Response {
	res := &apiversions.Response{}
	for _, k := range RegisteredKeys() {
		if b.Hidden[k] {
			continue
		}
		r := VRange{k.MinVersion(), k.MaxVersion()}
		if v, ok := b.Versions[k]; ok {
			r = v
		}
		res.ApiKeys = append(res.ApiKeys, apiversions.ApiKeyResponse{ApiKey: int16(k), MinVersion: r.Min, MaxVersion: r.Max})
	}
	res.ApiKeys = append(res.ApiKeys, b.ExtraVersions...)
	return res
}

// Advertised returns the ApiVersions entries broker id answers, in order.
func (c *Cluster) Advertised(id int32) []apiversions.ApiKeyResponse {
	return c.apiVersions(c.Brokers[id]).ApiKeys
}

// Coordinator returns the coordinator broker id for key (keyType 0 group, 1 transaction).
func (c *Cluster) Coordinator(key string, keyType int8) int32 {
	m := c.GroupCoord
	if keyType == 1 {
		m = c.TxnCoord
	}
	if id, ok := m[key]; ok {
		return id
	}
	ids := c.BrokerIDs()
	if len(ids) == 0 {
		return -1
	}
	h := int(keyType) * 5 // group and transaction coordinators of the same key string usually differ
	for _, ch := range []byte(key) {
		h = h*31 + int(ch)
	}
	return ids[h%len(ids)]
}

// MetadataAnswer builds the metadata response for the given topic filter (nil = all).
func (c *Cluster) MetadataAnswer(names []string, all bool) *metadata.Response {
	res := &metadata.Response{ClusterID: c.ClusterID, ControllerID: c.Controller}
	for _, id := range c.BrokerIDs() {
		b := c.Brokers[id]
		res.Brokers = append(res.Brokers, metadata.ResponseBroker{NodeID: b.ID, Host: b.Host, Port: b.Port, Rack: b.Rack})
	}
	// brokers are listed in a rotated order and topics in reverse order so that the client's sorting matters
	if n := len(res.Brokers); n > 1 {
		k := c.metaServed % n
		res.Brokers = append(res.Brokers[k:], res.Brokers[:k]...)
	}
	topicOf := func(name string) metadata.ResponseTopic {
		t, ok := c.Topics[name]
		if !ok {
			return metadata.ResponseTopic{Name: name, ErrorCode: 3}
		}
		rt := metadata.ResponseTopic{Name: name, ErrorCode: t.Err, IsInternal: t.Internal}
		ids := make([]int32, 0, len(t.Parts))
		for id := range t.Parts {
			ids = append(ids, id)
		}
		sort.Slice(ids, func(i, j int) bool { return ids[i] > ids[j] })
		for _, id := range ids {
			p := t.Parts[id]
			rt.Partitions = append(rt.Partitions, metadata.ResponsePartition{
				ErrorCode: p.Err, PartitionIndex: id, LeaderID: p.Leader,
				ReplicaNodes: append([]int32{}, p.Replicas...), IsrNodes: append([]int32{}, p.Isr...), OfflineReplicas: append([]int32{}, p.Offline...),
			})
		}
		return rt
	}
	if all {
		names = names[:0]
		for n := range c.Topics {
			names = append(names, n)
		}
		sort.Sort(sort.Reverse(sort.StringSlice(names)))
	}
	for _, n := range names {
		res.Topics = append(res.Topics, topicOf(n))
	}
	return res
}

func (c *Cluster) handle(broker int32, ver int16, msg protocol.Message) protocol.Message {
	b := c.Brokers[broker]
	switch m := msg.(type) {
	case *apiversions.Request:
		if b == nil {
			return &apiversions.Response{}
		}
		return c.apiVersions(b)

	case *metadata.Request:
		all := m.TopicNames == nil || (ver == 0 && len(m.TopicNames) == 0)
		if m.AllowAutoTopicCreation && c.AutoCreate && !all {
			for _, n := range m.TopicNames {
				if _, ok := c.Topics[n]; !ok {
					c.Topics[n] = &Topic{Parts: map[int32]*Part{0: {Leader: c.Controller, Replicas: []int32{c.Controller}, Isr: []int32{c.Controller}}}}
				}
			}
		}
		res := c.MetadataAnswer(append([]string{}, m.TopicNames...), all)
		c.metaServed++
		if all || !m.AllowAutoTopicCreation { // the transport's own refresh (never auto-creating): its answer is the cache
			c.lastMeta = res
		}
		return res

	case *findcoordinator.Request:
		if e := c.CoordErr[m.Key]; e != 0 {
			return &findcoordinator.Response{ErrorCode: e, NodeID: -1}
		}
		id := c.Coordinator(m.Key, m.KeyType)
		cb := c.Brokers[id]
		if cb == nil {
			return &findcoordinator.Response{ErrorCode: 15, NodeID: -1}
		}
		return &findcoordinator.Response{NodeID: id, Host: cb.Host, Port: cb.Port}

	case *listoffsets.Request:
		res := &listoffsets.Response{}
		for _, t := range m.Topics {
			rt := listoffsets.ResponseTopic{Topic: t.Topic}
			for _, p := range t.Partitions {
				rp := c.listOffset(broker, t.Topic, p.Partition, p.Timestamp)
				// Kafka validates the caller's current leader epoch from v4 on (−1 = no validation)
				if ct, ok := c.Topics[t.Topic]; ok && ver >= 4 && rp.ErrorCode == 0 {
					if cp, ok := ct.Parts[p.Partition]; ok && p.CurrentLeaderEpoch >= 0 && p.CurrentLeaderEpoch != cp.Epoch {
						rp = listoffsets.ResponsePartition{Partition: p.Partition, Timestamp: -1, Offset: -1, LeaderEpoch: -1, ErrorCode: 74}
						if p.CurrentLeaderEpoch > cp.Epoch {
							rp.ErrorCode = 76
						}
					}
				}
				rt.Partitions = append(rt.Partitions, rp)
			}
			res.Topics = append(res.Topics, rt)
		}
		return res

	case *offsetfetch.Request:
		res := &offsetfetch.Response{}
		notCoord := c.Coordinator(m.GroupID, 0) != broker
		if notCoord {
			res.ErrorCode = 16
		}
		groupErr := c.GroupErr[m.GroupID]
		if groupErr != 0 && !notCoord {
			res.ErrorCode = groupErr
		}
		topics := m.Topics
		if topics == nil { // all committed topics of the group
			names := []string{}
			for n := range c.Committed[m.GroupID] {
				names = append(names, n)
			}
			sort.Strings(names)
			for _, n := range names {
				rt := offsetfetch.RequestTopic{Name: n}
				for p := range c.Committed[m.GroupID][n] {
					rt.PartitionIndexes = append(rt.PartitionIndexes, p)
				}
				sort.Slice(rt.PartitionIndexes, func(i, j int) bool { return rt.PartitionIndexes[i] < rt.PartitionIndexes[j] })
				topics = append(topics, rt)
			}
		}
		for _, t := range topics {
			rt := offsetfetch.ResponseTopic{Name: t.Name}
			for _, p := range t.PartitionIndexes {
				rp := offsetfetch.ResponsePartition{PartitionIndex: p, CommittedOffset: -1}
				switch {
				case notCoord:
					rp.ErrorCode = 16
				case groupErr != 0:
					rp.ErrorCode = groupErr
				case c.CommitErr[t.Name][p] != 0:
					rp.ErrorCode = c.CommitErr[t.Name][p]
				default:
					if cm, ok := c.Committed[m.GroupID][t.Name][p]; ok {
						rp.CommittedOffset, rp.Metadata = cm.Offset, cm.Metadata
					}
				}
				rt.Partitions = append(rt.Partitions, rp)
			}
			res.Topics = append(res.Topics, rt)
		}
		if ver >= 2 && res.ErrorCode != 0 { // like Kafka: from v2 on a group-level failure is the top-level code, no partitions
			res.Topics = nil
		}
		return res

	case *offsetcommit.Request:
		res := &offsetcommit.Response{}
		notCoord := c.Coordinator(m.GroupID, 0) != broker
		for _, t := range m.Topics {
			rt := offsetcommit.ResponseTopic{Name: t.Name}
			for _, p := range t.Partitions {
				rp := offsetcommit.ResponsePartition{PartitionIndex: p.PartitionIndex}
				switch {
				case notCoord:
					rp.ErrorCode = 16
				case c.CommitErr[t.Name][p.PartitionIndex] != 0:
					rp.ErrorCode = c.CommitErr[t.Name][p.PartitionIndex]
				default:
					if _, ok := c.Topics[t.Name]; !ok {
						rp.ErrorCode = 3
						break
					}
					if c.Committed[m.GroupID] == nil {
						c.Committed[m.GroupID] = map[string]map[int32]Committed{}
					}
					if c.Committed[m.GroupID][t.Name] == nil {
						c.Committed[m.GroupID][t.Name] = map[int32]Committed{}
					}
					c.Committed[m.GroupID][t.Name][p.PartitionIndex] = Committed{Offset: p.CommittedOffset, Metadata: p.CommittedMetadata}
				}
				rt.Partitions = append(rt.Partitions, rp)
			}
			res.Topics = append(res.Topics, rt)
		}
		return res

	case *createtopics.Request:
		res := &createtopics.Response{}
		for _, t := range m.Topics {
			rt := createtopics.ResponseTopic{Name: t.Name, NumPartitions: t.NumPartitions, ReplicationFactor: t.ReplicationFactor}
			if _, ok := c.Topics[t.Name]; ok {
				rt.ErrorCode = 36
			} else if broker != c.Controller {
				rt.ErrorCode = 41 // NOT_CONTROLLER
			} else {
				nt := &Topic{Parts: map[int32]*Part{}}
				ids := c.BrokerIDs()
				for i := int32(0); i < t.NumPartitions; i++ {
					l := ids[int(i)%len(ids)]
					nt.Parts[i] = &Part{Leader: l, Replicas: []int32{l}, Isr: []int32{l}}
				}
				c.Topics[t.Name] = nt
			}
			res.Topics = append(res.Topics, rt)
		}
		return res

	case *produce.Request:
		if m.Acks == 0 {
			return nil
		}
		res := &produce.Response{}
		for _, t := range m.Topics {
			rt := produce.ResponseTopic{Topic: t.Topic}
			for _, p := range t.Partitions {
				rt.Partitions = append(rt.Partitions, produce.ResponsePartition{Partition: p.Partition})
			}
			res.Topics = append(res.Topics, rt)
		}
		return res
	}
	if f, ok := ZeroResponses[msg.ApiKey()]; ok {
		return f()
	}
	return nil
}

// ListOffsetOf is the reference answer of the cluster for one (topic, partition, timestamp) asked at broker.
func (c *Cluster) ListOffsetOf(broker int32, topic string, partition int32, ts int64) (errCode int16, timestamp, offset int64) {
	p := c.listOffset(broker, topic, partition, ts)
	return p.ErrorCode, p.Timestamp, p.Offset
}

func (c *Cluster) listOffset(broker int32, topic string, partition int32, ts int64) listoffsets.ResponsePartition {
	rp := listoffsets.ResponsePartition{Partition: partition, Timestamp: -1, Offset: -1, LeaderEpoch: -1}
	t, ok := c.Topics[topic]
	if !ok {
		rp.ErrorCode = 3
		return rp
	}
	p, ok := t.Parts[partition]
	if !ok {
		rp.ErrorCode = 3
		return rp
	}
	if p.Leader != broker {
		rp.ErrorCode = 6
		return rp
	}
	if p.ListErr != 0 {
		rp.ErrorCode = p.ListErr
		return rp
	}
	switch ts {
	case -2:
		rp.Offset = p.First
	case -1:
		rp.Offset = p.Last
	default:
		for _, ti := range p.Times {
			if ti.Timestamp >= ts {
				rp.Timestamp, rp.Offset = ti.Timestamp, ti.Offset
				break
			}
		}
	}
	return rp
}
