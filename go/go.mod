module kvharness

go 1.23.0

require (
	github.com/eapache/go-xerial-snappy v0.0.0-20180814174437-776d5712da21
	github.com/golang/snappy v0.0.1
	github.com/klauspost/compress v1.15.9
	github.com/pierrec/lz4/v4 v4.1.15
	github.com/segmentio/kafka-go v0.0.0
	github.com/xdg-go/pbkdf2 v1.0.0
	github.com/xdg-go/scram v1.1.2
	github.com/xdg-go/stringprep v1.0.4
	golang.org/x/text v0.23.0
)

replace github.com/segmentio/kafka-go => /repo
