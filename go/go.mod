module kvharness

go 1.23.0

require (
	github.com/segmentio/kafka-go v0.0.0
	github.com/xdg-go/scram v1.1.2
)

require (
	github.com/klauspost/compress v1.15.9 // indirect
	github.com/pierrec/lz4/v4 v4.1.15 // indirect
	github.com/xdg-go/pbkdf2 v1.0.0 // indirect
	github.com/xdg-go/stringprep v1.0.4 // indirect
	golang.org/x/text v0.23.0 // indirect
)

replace github.com/segmentio/kafka-go => /repo
